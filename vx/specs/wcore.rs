// ---- write-side contract layer (DESIGN.md 3.1.3 "trait Writer contract layer", 6 C09/C18); ghost code only.
// A writer is observed through a ghost view `w.wv() : WView`: the number of bytes in the section so far (`len`),
// the byte order, and the LOG OF SEMANTIC FIELDS written so far (`ops`). Contracts of the Writer primitives push exactly
// one `WOp` per call; generic writers are specified by the fields they push (and by arithmetic on `len`).
use crate::common::SectionId;
use crate::constants::DwEhPe;
use crate::write::Address;

/// One semantic field handed to a `Writer` primitive.
pub ghost enum WOp {
    /// fixed-width unsigned integer field of `size` bytes in the writer's byte order (write_u8..write_u128, write_udata;
    /// signed fields are the two's complement value, see `ws`)
    U { val: nat, size: nat },
    /// unsigned / signed LEB128 number
    Uleb(u64),
    Sleb(i64),
    /// raw bytes (`Writer::write`)
    Bytes(Seq<u8>),
    /// RELOCATABLE fields: the only fields a relocating writer may treat specially (C18)
    Address { address: Address, size: u8 },
    Offset { val: usize, section: SectionId, size: u8 },
    EhPointer { address: Address, eh_pe: DwEhPe, size: u8 },
    Reference { symbol: usize, size: u8 },
    /// overwrite of already written bytes at `offset` (occupy no new bytes)
    PatchBytes { offset: nat, bytes: Seq<u8> },
    PatchU { offset: nat, val: nat, size: nat },
    PatchOffset { offset: usize, val: usize, section: SectionId, size: u8 },
}

pub ghost struct WView {
    /// section length in bytes (`Writer::len`)
    pub len: nat,
    /// every field written so far, oldest first (patches included, in call order)
    pub ops: Seq<WOp>,
    /// byte order
    pub be: bool,
}

// ---- sizes (written from the encodings: n LEB128 groups hold 7n bits; DWARF 5 section 7.6)
pub open spec fn uleb_size(v: nat) -> nat {
    if v < 0x80 { 1 } else if v < 0x4000 { 2 } else if v < 0x20_0000 { 3 } else if v < 0x1000_0000 { 4 }
    else if v < 0x8_0000_0000 { 5 } else if v < 0x400_0000_0000 { 6 } else if v < 0x2_0000_0000_0000 { 7 }
    else if v < 0x100_0000_0000_0000 { 8 } else if v < 0x8000_0000_0000_0000 { 9 } else { 10 }
}

pub open spec fn sleb_size(v: int) -> nat {
    if -0x40 <= v < 0x40 { 1 } else if -0x2000 <= v < 0x2000 { 2 } else if -0x10_0000 <= v < 0x10_0000 { 3 }
    else if -0x800_0000 <= v < 0x800_0000 { 4 } else if -0x4_0000_0000 <= v < 0x4_0000_0000 { 5 }
    else if -0x200_0000_0000 <= v < 0x200_0000_0000 { 6 } else if -0x1_0000_0000_0000 <= v < 0x1_0000_0000_0000 { 7 }
    else if -0x80_0000_0000_0000 <= v < 0x80_0000_0000_0000 { 8 }
    else if -0x4000_0000_0000_0000 <= v < 0x4000_0000_0000_0000 { 9 } else { 10 }
}

/// 2^(8*size) for the sizes a sized field can have (1, 2, 4, 8, 16); 0 for any other size
pub open spec fn wpow(size: nat) -> nat {
    if size == 1 { 0x100 } else if size == 2 { 0x1_0000 } else if size == 4 { 0x1_0000_0000 }
    else if size == 8 { 0x1_0000_0000_0000_0000 } else if size == 16 { (0xffff_ffff_ffff_ffff_ffff_ffff_ffff_ffff + 1) as nat } else { 0 }
}
/// sizes accepted by write_udata / write_sdata / write_udata_at
pub open spec fn wsize_ok(size: nat) -> bool { size == 1 || size == 2 || size == 4 || size == 8 }
/// an unsigned / signed value fits a field of `size` bytes
pub open spec fn ufits(val: nat, size: nat) -> bool { val < wpow(size) }
pub open spec fn sfits(val: int, size: nat) -> bool { -(wpow(size) as int) <= 2 * val < wpow(size) as int }
/// two's complement representation of a signed value in `size` bytes
pub open spec fn s2u(val: int, size: nat) -> nat {
    if val >= 0 { val as nat } else { (val + wpow(size)) as nat }
}
/// inverse of s2u (what a reader's signed read returns: `sext(u, 8*size)`)
pub open spec fn u2s(u: nat, size: nat) -> int {
    if 2 * u >= wpow(size) { u as int - wpow(size) as int } else { u as int }
}
/// the fixed-width unsigned field (constructor shorthand)
pub open spec fn wu(val: nat, size: nat) -> WOp { WOp::U { val, size } }
/// the fixed-width SIGNED field: same field kind, two's complement value
pub open spec fn ws(val: int, size: nat) -> WOp { WOp::U { val: s2u(val, size), size } }

pub proof fn lemma_s2u_roundtrip(val: int, size: nat)
    requires wsize_ok(size), sfits(val, size)
    ensures ufits(s2u(val, size), size), u2s(s2u(val, size), size) == val
{
}

// ---- .eh_frame pointer encodings (LSB Core, "DWARF Exception Header Encoding": low 4 bits = value format, bits 4-6 = application)
pub open spec fn eh_format(eh_pe: DwEhPe) -> u8 { eh_pe.0 & 0x0f }
pub open spec fn eh_application(eh_pe: DwEhPe) -> u8 { eh_pe.0 & 0x70 }

/// the same two projections in arithmetic form (bridge to read-side specs that use `% 16` / `/ 16 % 8`)
pub proof fn lemma_eh_format_arith(eh_pe: DwEhPe)
    ensures eh_format(eh_pe) == eh_pe.0 % 16, eh_application(eh_pe) == ((eh_pe.0 / 16) % 8) * 16
{
    let x = eh_pe.0;
    assert(x & 0x0fu8 == x % 16u8) by (bit_vector);
    assert(x & 0x70u8 == ((x / 16u8) % 8u8) * 16u8) by (bit_vector);
}

/// the field `write_eh_pointer_data(val, format, size)` writes, None if the format is not a value format
pub open spec fn eh_data_op(val: u64, format: DwEhPe, size: u8) -> Option<WOp> {
    if format.0 == 0x00 { Some(wu(val as nat, size as nat)) }            // DW_EH_PE_absptr: an address-sized word
    else if format.0 == 0x01 { Some(WOp::Uleb(val)) }                     // DW_EH_PE_uleb128
    else if format.0 == 0x02 { Some(wu(val as nat, 2)) }                  // DW_EH_PE_udata2
    else if format.0 == 0x03 { Some(wu(val as nat, 4)) }                  // DW_EH_PE_udata4
    else if format.0 == 0x04 { Some(wu(val as nat, 8)) }                  // DW_EH_PE_udata8
    else if format.0 == 0x09 { Some(WOp::Sleb(val as i64)) }              // DW_EH_PE_sleb128
    else if format.0 == 0x0a { Some(ws((val as i64) as int, 2)) }         // DW_EH_PE_sdata2
    else if format.0 == 0x0b { Some(ws((val as i64) as int, 4)) }         // DW_EH_PE_sdata4
    else if format.0 == 0x0c { Some(ws((val as i64) as int, 8)) }         // DW_EH_PE_sdata8
    else { None }
}
/// the value fits the field chosen by the format
pub open spec fn eh_data_fits(val: u64, format: DwEhPe, size: u8) -> bool {
    if format.0 == 0x00 { wsize_ok(size as nat) && ufits(val as nat, size as nat) }
    else if format.0 == 0x02 { ufits(val as nat, 2) } else if format.0 == 0x03 { ufits(val as nat, 4) }
    else if format.0 == 0x0a { sfits((val as i64) as int, 2) } else if format.0 == 0x0b { sfits((val as i64) as int, 4) }
    else { true }
}
/// value a NON-relocating writer encodes for a constant address: absolute, or relative to the position of the field
/// (pcrel, modulo 2^64); None for the other applications (they need a base the Writer does not know)
pub open spec fn eh_plain_value(val: u64, eh_pe: DwEhPe, pos: nat) -> Option<u64> {
    if eh_application(eh_pe) == 0x00 { Some(val) }
    else if eh_application(eh_pe) == 0x10 { Some(((val as int - pos as int) % 0x1_0000_0000_0000_0000) as u64) }
    else { None }
}
/// number of bytes of an encoded pointer written at position `pos`.
/// Fixed-size formats: by the format alone. LEB128 formats: by the value, which is only defined for a constant address
/// (no shipped writer accepts a symbolic address with a LEB128 format; 0 is a placeholder there).
pub open spec fn eh_pointer_len(address: Address, eh_pe: DwEhPe, size: u8, pos: nat) -> nat {
    let f = eh_format(eh_pe);
    if f == 0x00 { size as nat } else if f == 0x02 || f == 0x0a { 2 } else if f == 0x03 || f == 0x0b { 4 }
    else if f == 0x04 || f == 0x0c { 8 }
    else {
        match address {
            Address::Constant(val) => match eh_plain_value(val, eh_pe, pos) {
                Some(v) => if f == 0x01 { uleb_size(v as nat) } else if f == 0x09 { sleb_size((v as i64) as int) } else { 0 },
                None => 0,
            },
            Address::Symbol { .. } => 0,
        }
    }
}

/// bytes a field occupies when written at position `pos` (the position only matters for LEB128-encoded eh pointers)
pub open spec fn op_len(op: WOp, pos: nat) -> nat {
    match op {
        WOp::U { val, size } => size,
        WOp::Uleb(v) => uleb_size(v as nat),
        WOp::Sleb(v) => sleb_size(v as int),
        WOp::Bytes(b) => b.len(),
        WOp::Address { address, size } => size as nat,
        WOp::Offset { val, section, size } => size as nat,
        WOp::EhPointer { address, eh_pe, size } => eh_pointer_len(address, eh_pe, size, pos),
        WOp::Reference { symbol, size } => size as nat,
        WOp::PatchBytes { .. } => 0,
        WOp::PatchU { .. } => 0,
        WOp::PatchOffset { .. } => 0,
    }
}

// ---- vocabulary (the write-side adv / unch / within)
/// `new` is `old` after writing exactly the field `op`
pub open spec fn emitted(old: WView, new: WView, op: WOp) -> bool {
    new.ops == old.ops.push(op) && new.len == old.len + op_len(op, old.len) && new.be == old.be
}
/// nothing was written
pub open spec fn wunch(old: WView, new: WView) -> bool {
    new == old
}
/// `a` is a prefix of `b`
pub open spec fn wprefix(a: Seq<WOp>, b: Seq<WOp>) -> bool {
    a.len() <= b.len() && forall|i: int| 0 <= i < a.len() ==> #[trigger] b[i] == a[i]
}
/// `new` is `old` after writing some fields: nothing logged is lost, the section did not shrink
/// (the universal frame of every writer function; reflexive and transitive for the SMT solver without help)
pub open spec fn grew(old: WView, new: WView) -> bool {
    wprefix(old.ops, new.ops) && old.len <= new.len && new.be == old.be
}
/// `new` is `old` after writing exactly the fields `s`, in order (for loops and variable-length structures;
/// use `emitted` chains / `emitted2..4` for a fixed number of fields)
pub open spec fn wrote(old: WView, new: WView, s: Seq<WOp>) -> bool {
    new.ops == old.ops + s && old.len <= new.len && new.be == old.be
}
pub open spec fn emitted2(old: WView, new: WView, a: WOp, b: WOp) -> bool {
    let l1 = old.len + op_len(a, old.len);
    new.ops == old.ops.push(a).push(b) && new.len == l1 + op_len(b, l1) && new.be == old.be
}
pub open spec fn emitted3(old: WView, new: WView, a: WOp, b: WOp, c: WOp) -> bool {
    let l1 = old.len + op_len(a, old.len);
    let l2 = l1 + op_len(b, l1);
    new.ops == old.ops.push(a).push(b).push(c) && new.len == l2 + op_len(c, l2) && new.be == old.be
}
pub open spec fn emitted4(old: WView, new: WView, a: WOp, b: WOp, c: WOp, d: WOp) -> bool {
    let l1 = old.len + op_len(a, old.len);
    let l2 = l1 + op_len(b, l1);
    let l3 = l2 + op_len(c, l2);
    new.ops == old.ops.push(a).push(b).push(c).push(d) && new.len == l3 + op_len(d, l3) && new.be == old.be
}

// ---- lemmas for `wrote` (sequence algebra proved once here; `broadcast use crate::wspec::group_wrote;` = nil, +emitted, ==> grew)
pub broadcast proof fn lemma_wrote_nil(v: WView)
    ensures #[trigger] wrote(v, v, Seq::<WOp>::empty())
{
    assert(v.ops + Seq::<WOp>::empty() =~= v.ops);
}
pub broadcast proof fn lemma_wrote_emitted(a: WView, b: WView, c: WView, s: Seq<WOp>, op: WOp)
    requires #[trigger] wrote(a, b, s), #[trigger] emitted(b, c, op)
    ensures wrote(a, c, s.push(op))
{
    assert((a.ops + s).push(op) =~= a.ops + s.push(op));
}
/// NOT in group_wrote and not broadcast: with a == b == c (any term wrote(v, v, s), e.g. a loop-entry invariant) it would
/// match its own conclusion (s+s, s+s+s, ...) and send z3 into an unbounded matching loop. Call it explicitly.
pub proof fn lemma_wrote_wrote(a: WView, b: WView, c: WView, s: Seq<WOp>, t: Seq<WOp>)
    requires wrote(a, b, s), wrote(b, c, t)
    ensures wrote(a, c, s + t)
{
    assert((a.ops + s) + t =~= a.ops + (s + t));
}
pub broadcast proof fn lemma_wrote_grew(a: WView, b: WView, s: Seq<WOp>)
    requires #[trigger] wrote(a, b, s)
    ensures grew(a, b)
{
}
pub proof fn lemma_emitted_wrote(a: WView, b: WView, op: WOp)
    requires emitted(a, b, op)
    ensures wrote(a, b, seq![op])
{
    assert(a.ops.push(op) =~= a.ops + seq![op]);
}
pub broadcast group group_wrote {
    lemma_wrote_nil,
    lemma_wrote_emitted,
    lemma_wrote_grew,
}
