// B-wcfi_table: ghost vocabulary of FrameTable::{add_cie, add_fde, write} (module write::cfi; C14).
//
// A table write is described by one record per FDE, in insertion order (`rs[i]` is the step that wrote FDE i):
//   at  = the section when step i started        (== the end of step i-1: nothing is written between entries)
//   mid = the section when the FDE entry started (== at, unless the CIE was written first in this step: `fresh`)
//   end = the section when the FDE entry was complete
//   src = the step in which the CIE of FDE i was written (src <= i; src == i iff fresh)
//   cie_off = the CIE offset handed to FrameDescriptionEntry::write
// `cie_written` / `fde_written` are exactly the Ok-postconditions of CommonInformationEntry::write and
// FrameDescriptionEntry::write (batch wcfi): the table contract says WHICH entries were written WHERE and with WHICH
// CIE; the entry contracts say what an entry is.

pub ghost struct FRec {
    pub fresh: bool,
    pub src: int,
    pub at: WView,
    pub mid: WView,
    pub end: WView,
    pub cie_off: usize,
}

/// `cie` was written as one entry from `at` to `end` (the Ok clauses of CommonInformationEntry::write)
pub closed spec fn cie_written(cie: &CommonInformationEntry, at: WView, end: WView, eh_frame: bool) -> bool {
    cfi_version_ok(eh_frame, cie.encoding.version)
    && valid_address_size(cie.encoding.address_size)
    && entry_closed(at, end, cie.encoding.format)
    && (end.len - at.len) % (cie.encoding.address_size as int) == 0
    && end.len >= at.len && end.be == at.be
}

/// `fde` was written as one entry from `at` to `end`, referring to `cie` at section offset `cie_off`
/// (the Ok clauses of FrameDescriptionEntry::write)
pub closed spec fn fde_written(fde: &FrameDescriptionEntry, cie: &CommonInformationEntry, cie_off: usize, at: WView, end: WView, eh_frame: bool) -> bool {
    grew(fde.after_fde_header(at, eh_frame, cie_off, cie), end)
    && entry_closed(at, end, cie.encoding.format)
    && (end.len - at.len) % (cie.encoding.address_size as int) == 0
    && grew(at, end)
}

/// what may follow the last entry: nothing; in .eh_frame a 4-byte zero length word (the terminator of the LSB
/// .eh_frame format) is also legal.  A terminator in .debug_frame would read back as an extra (empty) entry.
pub open spec fn tail_ok(eh_frame: bool, last: WView, w1: WView) -> bool {
    w1 == last || (eh_frame && emitted(last, w1, wu(0, 4)))
}

pub open spec fn last_end(w0: WView, rs: Seq<FRec>) -> WView {
    if rs.len() == 0 { w0 } else { rs[rs.len() - 1].end }
}

impl FrameDescriptionEntry {
    pub closed spec fn has_lsda(&self) -> bool { self.lsda is Some }
}
impl CommonInformationEntry {
    pub closed spec fn has_lsda_encoding(&self) -> bool { self.lsda_encoding is Some }
}

impl FrameTable {
    pub closed spec fn tbase(&self) -> BaseId { self.base_id }
    /// the CIEs in id order (MODEL view of the IndexSet)
    pub closed spec fn tcies(&self) -> Seq<CommonInformationEntry> { self.cies.elems() }
    pub closed spec fn tfdes(&self) -> Seq<(CieId, FrameDescriptionEntry)> { self.fdes@ }

    /// index of the CIE that FDE i names
    pub open spec fn cie_of(&self, i: int) -> int { self.tfdes()[i].0.ix() as int }

    /// no two CIEs of the table are equal (so: different ids <==> different CIEs)
    pub open spec fn nodup(&self) -> bool {
        forall|a: int, b: int| #![trigger self.tcies()[a], self.tcies()[b]] 0 <= a < b < self.tcies().len() ==> !set_eq(self.tcies()[a], self.tcies()[b])
    }

    /// FDE i names a CIE of THIS table, and has an LSDA iff that CIE has an LSDA encoding (documented API requirement)
    pub open spec fn fde_ok(&self, i: int) -> bool {
        let e = self.tfdes()[i];
        e.0.base() == self.tbase() && e.0.ix() < self.tcies().len()
        && (e.1.has_lsda() <==> self.tcies()[e.0.ix() as int].has_lsda_encoding())
    }

    pub open spec fn wf(&self) -> bool {
        self.nodup() && forall|i: int| 0 <= i < self.tfdes().len() ==> #[trigger] self.fde_ok(i)
    }

    /// [C14:table-each-fde-once] step i wrote FDE i (and nothing else but, first, its CIE if `fresh`), starting where
    /// step i-1 ended
    pub open spec fn step_ok(&self, eh_frame: bool, w0: WView, rs: Seq<FRec>, i: int) -> bool {
        let r = rs[i];
        let cie = &self.tcies()[self.cie_of(i)];
        r.at == (if i == 0 { w0 } else { rs[i - 1].end })
        && (r.fresh ==> cie_written(cie, r.at, r.mid, eh_frame))
        && (!r.fresh ==> r.mid == r.at)
        && fde_written(&self.tfdes()[i].1, cie, r.cie_off, r.mid, r.end, eh_frame)
    }

    /// [C14:table-cie-before-fde] the CIE of FDE i was written in a step src <= i (inside a step the CIE precedes the FDE),
    /// and a CIE is written only in the step of the FIRST FDE that names it (at most once; never without an FDE)
    pub open spec fn step_cie(&self, rs: Seq<FRec>, i: int) -> bool {
        let r = rs[i];
        0 <= r.src <= i && self.cie_of(r.src) == self.cie_of(i) && rs[r.src].fresh
        && (r.fresh ==> r.src == i)
        && (r.fresh ==> forall|j: int| 0 <= j < i ==> self.cie_of(j) != self.cie_of(i))
    }

    /// [C14:table-fde-own-cie] the CIE offset FDE i was written with is where ITS OWN CIE starts
    pub open spec fn step_own(&self, rs: Seq<FRec>, i: int) -> bool {
        rs[i].cie_off as nat == rs[rs[i].src].at.len
    }

    /// the whole table was written from w0 to w1, as described by rs
    pub open spec fn table_written(&self, eh_frame: bool, w0: WView, w1: WView, rs: Seq<FRec>) -> bool {
        rs.len() == self.tfdes().len()
        && (forall|i: int| 0 <= i < rs.len() ==> #[trigger] self.step_ok(eh_frame, w0, rs, i))
        && (forall|i: int| 0 <= i < rs.len() ==> #[trigger] self.step_cie(rs, i))
        && (forall|i: int| 0 <= i < rs.len() ==> #[trigger] self.step_own(rs, i))
        && tail_ok(eh_frame, last_end(w0, rs), w1)
    }

    /// some step record describes the write from w0 to w1
    pub open spec fn table_done(&self, eh_frame: bool, w0: WView, w1: WView) -> bool {
        exists|rs: Seq<FRec>| #[trigger] self.table_written(eh_frame, w0, w1, rs)
    }

    /// the `cie_offsets` invariant of FrameTable::write: cie_offsets[c] is Some(off) iff CIE c has been written (in
    /// step cpos[c]), at section offset off
    pub closed spec fn offs_ok(&self, rs: Seq<FRec>, cpos: Seq<Option<int>>, offs: Seq<Option<usize>>, c: int, n: int) -> bool {
        match cpos[c] {
            Some(j) => 0 <= j < n && self.cie_of(j) == c && rs[j].fresh && rs[j].src == j
                && offs[c] == Some(rs[j].at.len as usize) && rs[j].at.len <= usize::MAX
                && valid_address_size(self.tcies()[c].encoding.address_size),
            None => offs[c] is None && forall|j: int| 0 <= j < n ==> self.cie_of(j) != c,
        }
    }
}

/// checkpoint with a tagged precondition: what FrameTable::write leaves after the last entry
pub proof fn checkpoint_table_tail(eh_frame: bool, last: WView, actual: WView)
    requires
        tail_ok(eh_frame, last, actual), // [C14:eh-terminator]
{
}
