// ---- spec functions for C05 (CIE/FDE decoding, pointer encodings, .eh_frame_hdr search table); ghost code only.
// Written from: LSB Core generic 10.5 "DWARF Extensions" (DW_EH_PE_* table, .eh_frame CIE/FDE layout, augmentation
// string, .eh_frame_hdr layout) and DWARF 5 section 6.4.1 / 7.24 (.debug_frame CIE/FDE layout) -- not from gimli.
use crate::vspec::*;
use crate::common::Format;

// ------------------------------------------------------------------ DW_EH_PE_* (LSB table 10-5 / 10-6)
/// low four bits: the value format
pub open spec fn pe_format(e: u8) -> u8 { (e % 16) as u8 }
/// bits 4..6: how the value is applied; bit 7 (0x80, GNU `indirect`) is not part of the application
pub open spec fn pe_app(e: u8) -> u8 { ((e as int / 16) % 8 * 16) as u8 }
pub open spec fn pe_indirect(e: u8) -> bool { e >= 0x80 }
pub open spec fn pe_omit(e: u8) -> bool { e == 0xff }
/// absptr 0, uleb128 1, udata2 2, udata4 3, udata8 4, sleb128 9, sdata2 0xa, sdata4 0xb, sdata8 0xc
pub open spec fn pe_format_known(f: u8) -> bool { f <= 4 || (9 <= f <= 0xc) }
/// absptr 0, pcrel 0x10, textrel 0x20, datarel 0x30, funcrel 0x40, aligned 0x50
pub open spec fn pe_app_known(a: u8) -> bool { a == 0 || a == 0x10 || a == 0x20 || a == 0x30 || a == 0x40 || a == 0x50 }
pub open spec fn pe_valid(e: u8) -> bool { pe_omit(e) || (pe_format_known(pe_format(e)) && pe_app_known(pe_app(e))) }
/// formats with a size that does not depend on the data
pub open spec fn pe_fixed(f: u8) -> bool { f == 0 || f == 2 || f == 3 || f == 4 || f == 0xa || f == 0xb || f == 0xc }
/// number of bytes the encoded value occupies at the read position of `v`
pub open spec fn pe_size(v: RView, f: u8, asz: u8) -> nat {
    if f == 0 { asz as nat } else if f == 1 || f == 9 { v.leb_len(0) } else if f == 2 || f == 0xa { 2 } else if f == 3 || f == 0xb { 4 } else { 8 }
}
/// mathematical value of the encoded field (signed formats give a signed value)
pub open spec fn pe_val(v: RView, f: u8, asz: u8) -> int {
    if f == 0 { v.u(0, asz as int) as int } else if f == 1 { v.uleb(0) as int } else if f == 2 { v.u(0, 2) as int } else if f == 3 { v.u(0, 4) as int }
    else if f == 4 { v.u(0, 8) as int } else if f == 9 { v.sleb(0) } else if f == 0xa { v.s(0, 2) } else if f == 0xb { v.s(0, 4) } else { v.s(0, 8) }
}
/// a signed value as the 64-bit two's complement number the API returns
pub open spec fn twos64(x: int) -> int { if x < 0 { x + 0x1_0000_0000_0000_0000 } else { x } }
/// 2^(8*size)
pub open spec fn modulus(size: u8) -> int { ones(size) as int + 1 }

pub ghost struct PeBases { pub section: Option<u64>, pub text: Option<u64>, pub data: Option<u64>, pub func: Option<u64> }

/// the base an application designates; `off` = offset of the encoded field from the start of its section.
/// None: the base is not known (error) or the application is `aligned` (unsupported)
pub open spec fn pe_base(app: u8, b: PeBases, off: nat, asz: u8) -> Option<int> {
    if app == 0 { Some(0int) }
    else if app == 0x10 { match b.section { Some(s) => Some((s as int + off as int) % modulus(asz)), None => None } }
    else if app == 0x20 { match b.text { Some(s) => Some(s as int), None => None } }
    else if app == 0x30 { match b.data { Some(s) => Some(s as int), None => None } }
    else if app == 0x40 { match b.func { Some(s) => Some(s as int), None => None } }
    else { None }
}
/// decoded pointer: (base + value) wrapped to the address size
pub open spec fn pe_ptr(base: int, val: int, asz: u8) -> int { (base + twos64(val)) % modulus(asz) }

/// the LSB statement "pcrel: value is relative to the address of the encoded field itself", flat form:
/// pointer == (section_address + field_offset + value) mod 2^(8*address_size)
pub proof fn lemma_pcrel_flat(s: u64, off: nat, val: int, asz: u8)
    requires valid_address_size(asz)
    ensures pe_ptr(pe_base(0x10, PeBases { section: Some(s), text: None, data: None, func: None }, off, asz)->Some_0, val, asz)
        == (s as int + off as int + twos64(val)) % modulus(asz)
{
    let m = modulus(asz);
    let a = s as int + off as int;
    let b = twos64(val);
    vstd::arithmetic::div_mod::lemma_add_mod_noop(a, b, m);
    vstd::arithmetic::div_mod::lemma_add_mod_noop(a % m, b, m);
    vstd::arithmetic::div_mod::lemma_mod_twice(a, m);
}

// widening conversions passed as function items to Result::map (`.map(u64::from)`): proved, not assumed
pub broadcast proof fn lemma_u64_from_u8(a: u8, v: u64)
    requires #[trigger] call_ensures(<u64 as From<u8>>::from, (a,), v)
    ensures v == a as u64 {}
pub broadcast proof fn lemma_u64_from_u16(a: u16, v: u64)
    requires #[trigger] call_ensures(<u64 as From<u16>>::from, (a,), v)
    ensures v == a as u64 {}
pub broadcast proof fn lemma_u64_from_u32(a: u32, v: u64)
    requires #[trigger] call_ensures(<u64 as From<u32>>::from, (a,), v)
    ensures v == a as u64 {}
pub broadcast group group_widen { lemma_u64_from_u8, lemma_u64_from_u16, lemma_u64_from_u32 }

// ------------------------------------------------------------------ common CIE/FDE prefix (DWARF 5 6.4.1, 7.4; LSB 10.6.1)
/// `b` = view starting at the entry. 64-bit format: the 4-byte escape 0xffffffff followed by an 8-byte length
pub open spec fn px_is64(b: RView) -> bool { b.u(0, 4) == 0xffff_ffff }
pub open spec fn px_format(b: RView) -> Format { if px_is64(b) { Format::Dwarf64 } else { Format::Dwarf32 } }
/// size of the initial length field
pub open spec fn px_ilen(b: RView) -> nat { if px_is64(b) { 12 } else { 4 } }
/// value of the length field: number of bytes of the entry after the length field
pub open spec fn px_len(b: RView) -> nat { if px_is64(b) { b.u(4, 8) } else { b.u(0, 4) } }
/// size of the CIE_id / CIE_pointer field: `.eh_frame`: always 4; `.debug_frame`: 4 (32-bit format) or 8 (64-bit format)
pub open spec fn px_idsz(b: RView, is_eh: bool) -> nat { if !is_eh && px_is64(b) { 8 } else { 4 } }
pub open spec fn px_id(b: RView, is_eh: bool) -> nat { b.u(px_ilen(b) as int, px_idsz(b, is_eh) as int) }
/// CIE discriminator: `.eh_frame`: id 0; `.debug_frame`: all-ones of the id width
pub open spec fn id_is_cie(is_eh: bool, is64: bool, id: nat) -> bool {
    if is_eh { id == 0 } else if is64 { id == 0xffff_ffff_ffff_ffff } else { id == 0xffff_ffff }
}
/// the bytes of the entry after the id field
pub open spec fn px_rest(b: RView, is_eh: bool) -> RView {
    RView { root: b.root, be: b.be, start: b.start + px_ilen(b) + px_idsz(b, is_eh), len: (px_len(b) - px_idsz(b, is_eh)) as nat }
}
/// offset of the CIE an FDE's CIE_pointer designates (`.eh_frame`: backwards from the pointer field itself)
pub open spec fn px_cie_offset(b: RView, is_eh: bool, entry_offset: nat) -> int {
    if is_eh { entry_offset + px_ilen(b) - px_id(b, is_eh) } else { px_id(b, is_eh) as int }
}
/// view [start, end) of the same buffer
pub open spec fn rv_from(v: RView, start: nat, end: nat) -> RView { RView { root: v.root, be: v.be, start: start, len: (end - start) as nat } }
pub open spec fn rv_adv(v: RView, n: nat) -> RView { RView { root: v.root, be: v.be, start: v.start + n, len: (v.len - n) as nat } }

// ------------------------------------------------------------------ NUL-terminated augmentation string
pub open spec fn cstr_len_in(root: Seq<u8>, pos: int, end: int) -> nat
    decreases end - pos
{
    if pos >= end { 0 } else if root[pos] == 0 { 0 } else { 1 + cstr_len_in(root, pos + 1, end) }
}
/// number of non-NUL bytes at offset p of the window
pub open spec fn cstr_len(v: RView, p: int) -> nat { cstr_len_in(v.root, v.start + p, v.end() as int) }

pub proof fn lemma_cstr_len(root: Seq<u8>, pos: int, end: int, n: nat)
    requires pos + n < end, root[pos + n] == 0, forall|k: int| pos <= k < pos + n ==> #[trigger] root[k] != 0
    ensures cstr_len_in(root, pos, end) == n
    decreases n
{
    if n > 0 {
        assert(root[pos] != 0);
        lemma_cstr_len(root, pos + 1, end, (n - 1) as nat);
    }
}

// ------------------------------------------------------------------ augmentation (LSB 10.6.1.1.1 "Augmentation String Format")
pub ghost struct AugSt {
    pub lsda: Option<u8>,
    /// (encoding, decoded address)
    pub pers: Option<(u8, int)>,
    pub fde: Option<u8>,
    pub sig: bool,
    /// a character has been processed ('z' is only legal as the first one)
    pub first: bool,
    /// unread part of the augmentation data block (present iff 'z' was seen)
    pub data: Option<RView>,
    /// unread part of the CIE after what the augmentation consumed
    pub input: RView,
}
pub open spec fn aug_init(input: RView) -> AugSt {
    AugSt { lsda: None, pers: None, fde: None, sig: false, first: false, data: None, input: input }
}
/// effect of one augmentation character; None = malformed (or not enough data)
pub open spec fn aug_step(ch: u8, st: AugSt, b: PeBases, sec_start: nat, asz: u8) -> Option<AugSt> {
    if ch == 0x7a {  // 'z': uleb length + that many bytes of augmentation data follow the return address register
        let l = st.input.leb_len(0);
        let n = st.input.uleb(0);
        if !st.first && st.input.leb_ok(0) && l + n <= st.input.len {
            Some(AugSt { first: true, data: Some(RView { root: st.input.root, be: st.input.be, start: st.input.start + l, len: n }), input: rv_adv(st.input, l + n), ..st })
        } else { None }
    } else if ch == 0x4c {  // 'L': one byte: encoding of the LSDA pointer in the FDEs
        match st.data {
            Some(d) => if d.len >= 1 && pe_valid(d.at(0)) { Some(AugSt { first: true, lsda: Some(d.at(0)), data: Some(rv_adv(d, 1)), ..st }) } else { None },
            None => None,
        }
    } else if ch == 0x52 {  // 'R': one byte: encoding of the FDE address fields
        match st.data {
            Some(d) => if d.len >= 1 && pe_valid(d.at(0)) { Some(AugSt { first: true, fde: Some(d.at(0)), data: Some(rv_adv(d, 1)), ..st }) } else { None },
            None => None,
        }
    } else if ch == 0x50 {  // 'P': one byte encoding, then the personality routine pointer in that encoding
        match st.data {
            Some(d) => if d.len >= 1 && pe_valid(d.at(0)) && !pe_omit(d.at(0)) {
                let e = d.at(0);
                let d1 = rv_adv(d, 1);
                let sz = pe_size(d1, pe_format(e), asz);
                match pe_base(pe_app(e), b, (d1.start - sec_start) as nat, asz) {
                    Some(base) => if sz <= d1.len {
                        Some(AugSt { first: true, pers: Some((e, pe_ptr(base, pe_val(d1, pe_format(e), asz), asz))), data: Some(rv_adv(d1, sz)), ..st })
                    } else { None },
                    None => None,
                }
            } else { None },
            None => None,
        }
    } else if ch == 0x53 {  // 'S': signal frame
        Some(AugSt { first: true, sig: true, ..st })
    } else { None }
}
/// the whole string `s` from character i on (opaque: only Augmentation::parse needs to unfold it)
#[verifier::opaque]
pub open spec fn aug_fold(s: RView, i: nat, st: AugSt, b: PeBases, sec_start: nat, asz: u8) -> Option<AugSt>
    decreases s.len - i
{
    if i >= s.len { Some(st) } else {
        match aug_step(s.at(i as int), st, b, sec_start, asz) {
            Some(st2) => aug_fold(s, i + 1, st2, b, sec_start, asz),
            None => None,
        }
    }
}

// ------------------------------------------------------------------ CIE (DWARF 5 6.4.1; LSB 10.6.1.1)
pub ghost struct CieM {
    pub version: u8, pub asz: u8, pub caf: nat, pub daf: int, pub rar: nat,
    pub aug: Option<AugSt>,
    /// initial instructions: everything up to the end of the entry
    pub instr: RView,
}
/// `r` = the bytes of the entry after the id field. None = not a well-formed CIE of a supported version
pub open spec fn cie_model(r: RView, is_eh: bool, dflt_asz: u8, b: PeBases, sec_start: nat) -> Option<CieM> {
    let version = r.at(0);
    let n = cstr_len(r, 1);
    let q0 = 1 + n + 1;
    let sizes = !is_eh && version == 4;   // DWARF 4+: address_size, segment_selector_size
    let asz = if sizes { r.at(q0 as int) } else { dflt_asz };
    let q1 = if sizes { q0 + 2 } else { q0 };
    let caf = r.uleb(q1 as int);
    let q2 = q1 + r.leb_len(q1 as int);
    let daf = r.sleb(q2 as int);
    let q3 = q2 + r.leb_len(q2 as int);
    // version 1: return address register is one unsigned byte; later: uleb128
    let rar = if version == 1 { r.at(q3 as int) as nat } else { r.uleb(q3 as int) };
    let q4 = if version == 1 { q3 + 1 } else { q3 + r.leb_len(q3 as int) };
    if r.len < 1 || !(version == 1 || version == 3 || version == 4) || q0 > r.len || q4 > r.len
        || (sizes && (!valid_address_size(r.at(q0 as int)) || r.at(q0 as int + 1) != 0)) {
        None
    } else if n == 0 {
        Some(CieM { version: version, asz: asz, caf: caf, daf: daf, rar: rar, aug: None, instr: rv_adv(r, q4) })
    } else {
        match aug_fold(RView { root: r.root, be: r.be, start: r.start + 1, len: n }, 0, aug_init(rv_adv(r, q4)), b, sec_start, asz) {
            Some(st) => Some(CieM { version: version, asz: asz, caf: caf, daf: daf, rar: rar, aug: Some(st), instr: st.input }),
            None => None,
        }
    }
}

// ------------------------------------------------------------------ FDE (DWARF 5 6.4.1; LSB 10.6.1.2)
pub ghost struct FdeM {
    pub initial: int, pub range: int,
    /// Some(lsda) iff the CIE has augmentation data; lsda = (indirect?, address) if the CIE's string has 'L'
    pub aug: Option<Option<(u8, int)>>,
    pub instr: RView,
}
/// `r` = bytes of the FDE after the CIE_pointer; fde_enc/lsda_enc/has_aug come from the FDE's CIE
pub open spec fn fde_model(r: RView, fde_enc: Option<u8>, has_aug: bool, lsda_enc: Option<u8>, asz: u8, b: PeBases, sec_start: nat) -> Option<FdeM> {
    // initial_location and address_range: plain addresses, or both in the 'R' encoding (range: value only, no base)
    let e = match fde_enc { Some(e) => e, None => 0u8 };
    let f = pe_format(e);
    let s1 = match fde_enc { Some(_) => pe_size(r, f, asz), None => asz as nat };
    let r1 = rv_adv(r, s1);
    let s2 = match fde_enc { Some(_) => pe_size(r1, f, asz), None => asz as nat };
    let base = match fde_enc { Some(_) => pe_base(pe_app(e), b, (r.start - sec_start) as nat, asz), None => Some(0int) };
    let initial = match fde_enc { Some(_) => pe_ptr(base->Some_0, pe_val(r, f, asz), asz), None => r.u(0, asz as int) as int };
    let range = match fde_enc { Some(_) => twos64(pe_val(r1, f, asz)), None => r1.u(0, asz as int) as int };
    let r2 = rv_adv(r1, s2);
    if (fde_enc is Some && (!pe_valid(e) || pe_omit(e))) || base is None || s1 + s2 > r.len {
        None
    } else if !has_aug {
        Some(FdeM { initial: initial, range: range, aug: None, instr: r2 })
    } else {
        // augmentation data: uleb length, then the block; LSDA pointer (func-relative base = initial location) if 'L'
        let l = r2.leb_len(0);
        let n = r2.uleb(0);
        let d = RView { root: r2.root, be: r2.be, start: r2.start + l, len: n };
        if !r2.leb_ok(0) || l + n > r2.len { None } else {
            match lsda_enc {
                None => Some(FdeM { initial: initial, range: range, aug: Some(None), instr: rv_adv(r2, l + n) }),
                Some(le) => {
                    let lb = pe_base(pe_app(le), PeBases { func: Some(initial as u64), ..b }, (d.start - sec_start) as nat, asz);
                    if !pe_valid(le) || pe_omit(le) || lb is None || pe_size(d, pe_format(le), asz) > d.len { None } else {
                        Some(FdeM { initial: initial, range: range, aug: Some(Some((le, pe_ptr(lb->Some_0, pe_val(d, pe_format(le), asz), asz)))), instr: rv_adv(r2, l + n) })
                    }
                }
            }
        }
    }
}
/// an FDE covers [initial, initial + range) with the end wrapped at the address size (DWARF 5 6.4.1 "address_range")
pub open spec fn fde_end(initial: u64, range: u64, asz: u8) -> int { (initial as int + range as int) % modulus(asz) }
pub open spec fn fde_covers(initial: u64, range: u64, asz: u8, address: u64) -> bool {
    initial <= address && (address as int) < fde_end(initial, range, asz)
}
// ==== MODULE read::cfi
// ---- ghost relations between gimli's (private-field) types and the models above; lives in crate::read::cfi
pub open spec fn sb(s: &SectionBaseAddresses, func: Option<u64>) -> PeBases { PeBases { section: s.section, text: s.text, data: s.data, func: func } }
pub open spec fn ptr_is(p: Pointer, e: u8, a: int) -> bool { ptr_val(p) as int == a && (p is Indirect <==> pe_indirect(e)) }
spec fn opt_enc(o: Option<constants::DwEhPe>) -> Option<u8> { match o { Some(e) => Some(e.0), None => None } }
spec fn aug_is(a: Augmentation, st: AugSt) -> bool {
    opt_enc(a.lsda) == st.lsda && opt_enc(a.fde_address_encoding) == st.fde && a.is_signal_trampoline == st.sig
    && (match (a.personality, st.pers) { (Some(ep), Some(sp)) => ep.0.0 == sp.0 && ptr_is(ep.1, sp.0, sp.1), (None, None) => true, _ => false })
}
spec fn prefix_is<R: Reader<Offset = usize>>(p: CfiEntryPrefix<R>, b: RView, sec: RView, is_eh: bool) -> bool {
    p.format == px_format(b) && p.length as nat == px_len(b) && p.offset as nat == b.start - sec.start
    && p.cie_offset_base as nat == p.offset + px_ilen(b) && p.cie_id_or_offset as nat == px_id(b, is_eh)
    && px_len(b) >= px_idsz(b, is_eh) && p.rest.rv() == px_rest(b, is_eh) && px_ilen(b) + px_len(b) <= b.len
}
spec fn cie_is<R: Reader<Offset = usize>>(c: CommonInformationEntry<R>, m: CieM) -> bool {
    c.version == m.version && c.address_size == m.asz && c.code_alignment_factor as nat == m.caf
    && c.data_alignment_factor as int == m.daf && c.return_address_register.0 as nat == m.rar
    && (match (c.augmentation, m.aug) { (Some(a), Some(st)) => aug_is(a, st), (None, None) => true, _ => false })
    && c.initial_instructions.rv() == m.instr
}
/// `c` is the CIE encoded at the entry starting at view `b` of a section with view `sec`
pub closed spec fn cie_at<R: Reader<Offset = usize>>(c: CommonInformationEntry<R>, b: RView, sec: RView, is_eh: bool, dflt_asz: u8, bases: &BaseAddresses) -> bool {
    c.offset as nat == b.start - sec.start && c.length as nat == px_len(b) && c.format == px_format(b)
    && id_is_cie(is_eh, px_is64(b), px_id(b, is_eh))
    && (cie_model(px_rest(b, is_eh), is_eh, dflt_asz, sb(&bases.eh_frame, None), sec.start) matches Some(m) && cie_is(c, m))
}
spec fn fde_is<R: Reader<Offset = usize>>(f: FrameDescriptionEntry<R>, m: FdeM) -> bool {
    f.initial_address as int == m.initial && f.address_range as int == m.range && f.instructions.rv() == m.instr
    && (match (f.augmentation, m.aug) {
        (Some(a), Some(ml)) => (match (a.lsda, ml) { (Some(p), Some(el)) => ptr_is(p, el.0, el.1), (None, None) => true, _ => false }),
        (None, None) => true, _ => false })
}
/// `f` holds the fields encoded in `r` (the bytes after the CIE_pointer) under the parameters of its CIE
pub closed spec fn fde_body<R: Reader<Offset = usize>>(f: FrameDescriptionEntry<R>, r: RView, sec: RView, bases: &BaseAddresses) -> bool {
    fde_model(r, opt_enc(match f.cie.augmentation { Some(a) => a.fde_address_encoding, None => None }), f.cie.augmentation is Some,
              opt_enc(match f.cie.augmentation { Some(a) => a.lsda, None => None }), f.cie.address_size, sb(&bases.eh_frame, None), sec.start)
        matches Some(m) && fde_is(f, m)
}
