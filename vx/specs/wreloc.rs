// ---- C18 write side: what the two shipped kinds of writer do with a RELOCATABLE field (ghost code only).
// `plain_lower`  : the field a non-relocating writer (the default bodies in `trait Writer`) writes for an event
// `reloc_lower`  : the field a `RelocateWriter` hands to its inner writer + the relocation it records
// `lemma_c18_*`  : applying the recorded relocation to the zero field gives the plain writer's field
use crate::common::SectionId;
use crate::constants::DwEhPe;
use crate::write::Address;
use crate::write::relocate::{Relocation, RelocationTarget};
use crate::wspec::*;

/// the field written by the plain writer for event `op` at section position `pos`; None = the plain writer refuses
pub open spec fn plain_lower(op: WOp, pos: nat) -> Option<WOp> {
    match op {
        WOp::Address { address, size } => match address {
            Address::Constant(val) => Some(wu(val as nat, size as nat)),
            Address::Symbol { .. } => None,
        },
        WOp::Offset { val, section, size } => Some(wu(val as nat, size as nat)),
        WOp::PatchOffset { offset, val, section, size } => Some(WOp::PatchU { offset: offset as nat, val: val as nat, size: size as nat }),
        WOp::EhPointer { address, eh_pe, size } => match address {
            Address::Constant(val) => match eh_plain_value(val, eh_pe, pos) {
                Some(v) => eh_data_op(v, DwEhPe(eh_format(eh_pe)), size),
                None => None,
            },
            Address::Symbol { .. } => None,
        },
        WOp::Reference { .. } => None,
        _ => Some(op),
    }
}

/// size of the zero placeholder a RelocateWriter writes for a symbolic eh pointer: fixed-size formats only
pub open spec fn eh_reloc_size(eh_pe: DwEhPe, size: u8) -> Option<u8> {
    let f = eh_format(eh_pe);
    if f == 0x00 { Some(size) } else if f == 0x02 || f == 0x0a { Some(2u8) } else if f == 0x03 || f == 0x0b { Some(4u8) }
    else if f == 0x04 || f == 0x0c { Some(8u8) } else { None }
}

/// (field handed to the inner writer, relocation recorded) for event `op` at position `pos`; None = refused
pub open spec fn reloc_lower(op: WOp, pos: nat) -> Option<(WOp, Option<Relocation>)> {
    match op {
        WOp::Address { address, size } => match address {
            Address::Constant(val) => Some((wu(val as nat, size as nat), None)),
            Address::Symbol { symbol, addend } => Some((wu(0, size as nat),
                Some(Relocation { offset: pos as usize, size, target: RelocationTarget::Symbol(symbol), addend, eh_pe: None }))),
        },
        WOp::Offset { val, section, size } => Some((wu(0, size as nat),
            Some(Relocation { offset: pos as usize, size, target: RelocationTarget::Section(section), addend: val as i64, eh_pe: None }))),
        WOp::PatchOffset { offset, val, section, size } => Some((WOp::PatchU { offset: offset as nat, val: 0, size: size as nat },
            Some(Relocation { offset, size, target: RelocationTarget::Section(section), addend: val as i64, eh_pe: None }))),
        WOp::EhPointer { address, eh_pe, size } => match address {
            // delegated unchanged to the inner writer's write_eh_pointer
            Address::Constant(val) => Some((op, None)),
            Address::Symbol { symbol, addend } => match eh_reloc_size(eh_pe, size) {
                Some(sz) => Some((wu(0, sz as nat),
                    Some(Relocation { offset: pos as usize, size: sz, target: RelocationTarget::Symbol(symbol), addend, eh_pe: Some(eh_pe) }))),
                None => None,
            },
        },
        _ => Some((op, None)),
    }
}

/// relocation log after one event
pub open spec fn relocs_after(old: Seq<Relocation>, r: Option<Relocation>) -> Seq<Relocation> {
    match r { Some(x) => old.push(x), None => old }
}

/// Applying a relocation: the `size`-byte field at `r.offset` (currently holding `field`) receives
/// field + target + addend, minus the field's own position for a pc-relative eh pointer, modulo 2^(8*size).
pub open spec fn apply_reloc(field: nat, r: Relocation, target: int) -> nat {
    let pcrel = match r.eh_pe { Some(e) => eh_application(e) == 0x10, None => false };
    let v = field as int + target + r.addend as int - (if pcrel { r.offset as int } else { 0 });
    (v % (wpow(r.size as nat) as int)) as nat
}

/// C18 (write side), section offsets: the relocating writer writes 0 and records (offset = position, size, Section(section),
/// addend = val); applying it with the section's own base 0 gives the field the plain writer writes.
pub proof fn lemma_c18_offset(val: usize, section: SectionId, size: u8, pos: nat)
    requires wsize_ok(size as nat), ufits(val as nat, size as nat), pos <= usize::MAX,
    ensures
        reloc_lower(WOp::Offset { val, section, size }, pos) matches Some(p) && p.0 == wu(0, size as nat)
            && (p.1 matches Some(r) && r.offset == pos && r.size == size && r.target == RelocationTarget::Section(section)
                && plain_lower(WOp::Offset { val, section, size }, pos) == Some(wu(apply_reloc(0, r, 0), size as nat))),
{
    assert(val <= 0x7fff_ffff_ffff_ffffusize ==> (val as i64) as int == val as int) by (bit_vector);
    assert(val > 0x7fff_ffff_ffff_ffffusize ==> (val as i64) as int == val as int - 0x1_0000_0000_0000_0000) by (bit_vector);
    let a = (val as i64) as int;
    if a >= 0 {
        vstd::arithmetic::div_mod::lemma_small_mod(a as nat, wpow(size as nat));
    } else {
        assert(size == 8);
        vstd::arithmetic::div_mod::lemma_mod_multiples_vanish(1, a, 0x1_0000_0000_0000_0000);
        vstd::arithmetic::div_mod::lemma_small_mod((a + 0x1_0000_0000_0000_0000) as nat, 0x1_0000_0000_0000_0000);
        assert(0x1_0000_0000_0000_0000 * 1 + a == a + 0x1_0000_0000_0000_0000);
    }
}

pub proof fn lemma_c18_offset_at(offset: usize, val: usize, section: SectionId, size: u8, pos: nat)
    requires wsize_ok(size as nat), ufits(val as nat, size as nat),
    ensures
        reloc_lower(WOp::PatchOffset { offset, val, section, size }, pos) matches Some(p)
            && p.0 == (WOp::PatchU { offset: offset as nat, val: 0, size: size as nat })
            && (p.1 matches Some(r) && r.offset == offset && r.size == size && r.target == RelocationTarget::Section(section)
                && plain_lower(WOp::PatchOffset { offset, val, section, size }, pos)
                    == Some(WOp::PatchU { offset: offset as nat, val: apply_reloc(0, r, 0), size: size as nat })),
{
    assert(val <= 0x7fff_ffff_ffff_ffffusize ==> (val as i64) as int == val as int) by (bit_vector);
    assert(val > 0x7fff_ffff_ffff_ffffusize ==> (val as i64) as int == val as int - 0x1_0000_0000_0000_0000) by (bit_vector);
    let a = (val as i64) as int;
    if a >= 0 {
        vstd::arithmetic::div_mod::lemma_small_mod(a as nat, wpow(size as nat));
    } else {
        assert(size == 8);
        vstd::arithmetic::div_mod::lemma_mod_multiples_vanish(1, a, 0x1_0000_0000_0000_0000);
        vstd::arithmetic::div_mod::lemma_small_mod((a + 0x1_0000_0000_0000_0000) as nat, 0x1_0000_0000_0000_0000);
        assert(0x1_0000_0000_0000_0000 * 1 + a == a + 0x1_0000_0000_0000_0000);
    }
}

/// C18, symbolic addresses: with the symbol resolved to `symval`, the relocated field equals what the plain writer
/// writes for the constant address symval + addend (whenever that address fits the field).
pub proof fn lemma_c18_address(symbol: usize, addend: i64, size: u8, pos: nat, symval: int)
    requires wsize_ok(size as nat), 0 <= symval + addend < wpow(size as nat), pos <= usize::MAX,
    ensures
        reloc_lower(WOp::Address { address: Address::Symbol { symbol, addend }, size }, pos) matches Some(p) && p.0 == wu(0, size as nat)
            && (p.1 matches Some(r) && r.offset == pos && r.size == size && r.target == RelocationTarget::Symbol(symbol)
                && plain_lower(WOp::Address { address: Address::Constant((symval + addend) as u64), size }, pos)
                    == Some(wu(apply_reloc(0, r, symval), size as nat))),
{
}

/// C18, constant addresses and constant eh pointers need no relocation: same field as the plain writer / delegated
pub proof fn lemma_c18_constant(val: u64, eh_pe: DwEhPe, size: u8, pos: nat)
    ensures
        reloc_lower(WOp::Address { address: Address::Constant(val), size }, pos)
            == Some((plain_lower(WOp::Address { address: Address::Constant(val), size }, pos)->Some_0, None::<Relocation>)),
        reloc_lower(WOp::EhPointer { address: Address::Constant(val), eh_pe, size }, pos)
            == Some((WOp::EhPointer { address: Address::Constant(val), eh_pe, size }, None::<Relocation>)),
{
}

/// C18, symbolic eh pointers (fixed-size value formats, absolute or pc-relative): the relocated field equals the field the
/// plain writer writes for the constant address symval + addend, when the encoded value fits the format.
pub proof fn lemma_c18_eh_pointer(symbol: usize, addend: i64, eh_pe: DwEhPe, size: u8, pos: nat, symval: int)
    requires
        pos <= usize::MAX,
        0 <= symval + addend < 0x1_0000_0000_0000_0000,
        eh_application(eh_pe) == 0x00 || eh_application(eh_pe) == 0x10,
        eh_reloc_size(eh_pe, size) matches Some(sz) && wsize_ok(sz as nat) && ({
            let v = symval + addend - (if eh_application(eh_pe) == 0x10 { pos as int } else { 0 });
            let f = eh_format(eh_pe);
            // unsigned formats hold 0 <= v < 2^(8 sz); signed formats hold -2^(8 sz - 1) <= v < 2^(8 sz - 1)
            if f == 0x0a || f == 0x0b || f == 0x0c { sfits(v, sz as nat) } else { 0 <= v < wpow(sz as nat) }
        }),
    ensures
        reloc_lower(WOp::EhPointer { address: Address::Symbol { symbol, addend }, eh_pe, size }, pos) matches Some(p)
            && (p.1 matches Some(r) && r.offset == pos && Some(r.size) == eh_reloc_size(eh_pe, size) && r.eh_pe == Some(eh_pe)
                && p.0 == wu(0, r.size as nat)
                && plain_lower(WOp::EhPointer { address: Address::Constant((symval + addend) as u64), eh_pe, size }, pos)
                    == Some(wu(apply_reloc(0, r, symval), r.size as nat))),
{
    let sz = eh_reloc_size(eh_pe, size)->Some_0;
    let a = (symval + addend) as u64;
    let pc = eh_application(eh_pe) == 0x10;
    let v = symval + addend - (if pc { pos as int } else { 0 });
    let pv = eh_plain_value(a, eh_pe, pos)->Some_0;
    let f = eh_format(eh_pe);
    assert(f == eh_pe.0 & 0x0f);
    let fe = DwEhPe(f);
    // the 64-bit value the plain writer encodes is v modulo 2^64
    assert(pv as int == v % 0x1_0000_0000_0000_0000);
    assert(pv as int == if v < 0 { v + 0x1_0000_0000_0000_0000 } else { v });
    assert(v >= 0 ==> (pv as i64) as int == (if pv <= 0x7fff_ffff_ffff_ffffu64 { pv as int } else { pv as int - 0x1_0000_0000_0000_0000 })) by {
        assert(pv <= 0x7fff_ffff_ffff_ffffu64 ==> (pv as i64) as int == pv as int) by (bit_vector);
        assert(pv > 0x7fff_ffff_ffff_ffffu64 ==> (pv as i64) as int == pv as int - 0x1_0000_0000_0000_0000) by (bit_vector);
    }
    assert((pv as i64) as int == (if pv <= 0x7fff_ffff_ffff_ffffu64 { pv as int } else { pv as int - 0x1_0000_0000_0000_0000 })) by {
        assert(pv <= 0x7fff_ffff_ffff_ffffu64 ==> (pv as i64) as int == pv as int) by (bit_vector);
        assert(pv > 0x7fff_ffff_ffff_ffffu64 ==> (pv as i64) as int == pv as int - 0x1_0000_0000_0000_0000) by (bit_vector);
    }
}
