// ---- spec functions for C05 address lookup (.eh_frame_hdr binary search table, LSB Core generic 10.6.2: "a binary search
// table ... sorted by increasing initial location; each entry: initial location, address of the FDE, both in table_enc");
// ghost code only.  Lives in crate::read::cfi (names gimli's private types through their ghost accessors only).

/// byte offset of field `k` (0 = initial location, 1 = FDE address) of row `i` from the start of the table, for the three
/// fixed field sizes a searchable table can have.  Written by cases so that every product has a literal factor.
pub open spec fn tbl_off(enc: u8, i: nat, k: nat) -> nat {
    let f = pe_format(enc);
    if f == 2 || f == 0xa { i * 4 + k * 2 } else if f == 3 || f == 0xb { i * 8 + k * 4 } else { i * 16 + k * 8 }
}
/// decoded value of field `k` of row `i` (exactly what `parse_encoded_pointer` yields at that position: base per the
/// application bits of `table_enc` - pc-relative to the field itself, data-relative to the .eh_frame_hdr address, ... -
/// plus the zero/sign-extended field, wrapped at the address size).  0 where the base is not defined (never a successful parse).
/// Opaque: the search only compares these values; the definition is revealed where a parsed pointer is identified with a field.
#[verifier::opaque]
pub open spec fn tbl_val<R: Reader<Offset = usize>>(h: &ParsedEhFrameHdr<R>, bases: &BaseAddresses, i: nat, k: nat) -> int {
    match hdr_ptr_at(rv_adv(h.s_table(), tbl_off(h.s_table_enc(), i, k)), h.s_table_enc(), bases, h.s_section(), h.s_address_size()) {
        Some(a) => a,
        None => 0,
    }
}
/// initial location of row `i`
pub open spec fn tbl_key<R: Reader<Offset = usize>>(h: &ParsedEhFrameHdr<R>, bases: &BaseAddresses, i: nat) -> int { tbl_val(h, bases, i, 0) }
/// FDE address of row `i`
pub open spec fn tbl_fde<R: Reader<Offset = usize>>(h: &ParsedEhFrameHdr<R>, bases: &BaseAddresses, i: nat) -> int { tbl_val(h, bases, i, 1) }
/// the `fde_count` rows are sorted by initial location (non-decreasing)
pub open spec fn tbl_sorted<R: Reader<Offset = usize>>(h: &ParsedEhFrameHdr<R>, bases: &BaseAddresses) -> bool {
    forall|i: nat, j: nat| #![trigger tbl_key(h, bases, i), tbl_key(h, bases, j)]
        i <= j < h.s_fde_count() ==> tbl_key(h, bases, i) <= tbl_key(h, bases, j)
}
/// row `j` is a row of the table (row 0 is read even from an empty table: whatever follows the header)
pub open spec fn tbl_row<R: Reader<Offset = usize>>(h: &ParsedEhFrameHdr<R>, j: nat) -> bool {
    if h.s_fde_count() == 0 { j == 0 } else { j < h.s_fde_count() }
}
/// row `j` is the row a search for `address` in a sorted table answers with: the last row whose initial location is
/// <= address - among rows with the *same* initial location == address any one of them -, row 0 if every initial location is
/// greater than the address.  For strictly increasing initial locations `j` is unique.
pub open spec fn tbl_pick<R: Reader<Offset = usize>>(h: &ParsedEhFrameHdr<R>, bases: &BaseAddresses, address: u64, j: nat) -> bool {
    let n = h.s_fde_count() as nat;
    tbl_row(h, j) && (n > 0 ==>
        if tbl_key(h, bases, 0) > address { j == 0 }
        else {
            tbl_key(h, bases, j) <= address
            && (j + 1 < n ==> tbl_key(h, bases, j + 1) > address || tbl_key(h, bases, j) == address)
        })
}
/// `p` is the FDE address of row `j`, with the indirect flag of the table encoding
pub open spec fn tbl_answer<R: Reader<Offset = usize>>(h: &ParsedEhFrameHdr<R>, bases: &BaseAddresses, j: nat, p: Pointer) -> bool {
    ptr_is(p, h.s_table_enc(), tbl_fde(h, bases, j))
}
/// the base the application bits of `enc` designate is known for every position of the .eh_frame_hdr section
/// (`funcrel` has no meaning in the table, `aligned` is not supported)
pub open spec fn tbl_base_defined(enc: u8, bases: &BaseAddresses) -> bool {
    let a = pe_app(enc);
    a == 0 || (a == 0x10 && bases.eh_frame_hdr.section is Some) || (a == 0x20 && bases.eh_frame_hdr.text is Some)
    || (a == 0x30 && bases.eh_frame_hdr.data is Some)
}
/// conditions under which the search must succeed: searchable field size, all `fde_count` rows present (under 4 GiB, the
/// reader layer's offset conversion is only guaranteed up to there), base known, direct pointers (an indirect table encoding
/// is only tolerated when no pivot is read)
pub open spec fn tbl_total<R: Reader<Offset = usize>>(h: &ParsedEhFrameHdr<R>, bases: &BaseAddresses) -> bool {
    let enc = h.s_table_enc();
    let n = h.s_fde_count() as nat;
    hdr_field_size(enc) is Some && (n > 1 ==> !pe_indirect(enc)) && tbl_base_defined(enc, bases)
    && tbl_off(enc, if n == 0 { 1 } else { n }, 0) <= h.s_table().len <= 0xffff_ffff
}
/// the linear scan the binary search must agree with: last index < n whose key is <= address (0 if none)
pub open spec fn tbl_scan<R: Reader<Offset = usize>>(h: &ParsedEhFrameHdr<R>, bases: &BaseAddresses, address: u64, n: nat) -> nat
    decreases n
{
    if n == 0 { 0 } else if tbl_key(h, bases, (n - 1) as nat) <= address { (n - 1) as nat } else { tbl_scan(h, bases, address, (n - 1) as nat) }
}
/// for a sorted table with pairwise different keys around the answer, `tbl_pick` designates exactly the row the scan finds
pub proof fn lemma_pick_is_scan<R: Reader<Offset = usize>>(h: &ParsedEhFrameHdr<R>, bases: &BaseAddresses, address: u64, j: nat, n: nat)
    requires
        tbl_sorted(h, bases), tbl_pick(h, bases, address, j), j < n <= h.s_fde_count(),
        // the answer is not followed by a row with the same initial location (no duplicate of a key equal to the address)
        j + 1 < h.s_fde_count() ==> tbl_key(h, bases, j + 1) > address,
    ensures tbl_scan(h, bases, address, n) == j
    decreases n
{
    let last = (n - 1) as nat;
    if last == j {
        if tbl_key(h, bases, 0) > address {
            assert(j == 0 && n == 1);
            reveal_with_fuel(tbl_scan, 2);
        }
    } else {
        // last > j: its key is > address by sortedness from row j + 1 (or from row 0 if every key is greater)
        assert(tbl_key(h, bases, (j + 1) as nat) <= tbl_key(h, bases, last));
        if tbl_key(h, bases, 0) > address {
            assert(tbl_key(h, bases, 0) <= tbl_key(h, bases, last));
        }
        lemma_pick_is_scan(h, bases, address, j, last);
    }
}
