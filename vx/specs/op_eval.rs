// ---- ghost vocabulary of the evaluator contracts (module crate::read::op; ghost code only, nothing here is assumed)
// Written from DWARF 5 section 2.5 (stack machine) / 2.6 (location descriptions); the per-opcode clauses themselves
// are generated from the table STEP in vx/batches/op_eval.py.

/// two's complement image of a signed 64-bit constant on the (64-bit wide) generic stack slot
spec fn u64_of(i: int) -> u64 {
    (if i >= 0 { i } else { i + 0x1_0000_0000_0000_0000 }) as u64
}

/// everything except the value stack is unchanged
spec fn frame_but_stack<R: Reader<Offset = usize>, S: EvaluationStorage<R>>(a: Evaluation<R, S>, b: Evaluation<R, S>) -> bool {
    &&& frame_misc(a, b)
    &&& b.pc == a.pc
    &&& b.result == a.result
}

/// the configuration part of the machine state: everything except value stack, pc and result pieces
spec fn frame_misc<R: Reader<Offset = usize>, S: EvaluationStorage<R>>(a: Evaluation<R, S>, b: Evaluation<R, S>) -> bool {
    &&& b.bytecode == a.bytecode
    &&& b.encoding == a.encoding
    &&& b.object_address == a.object_address
    &&& b.max_iterations == a.max_iterations
    &&& b.iteration == a.iteration
    &&& b.state == a.state
    &&& b.addr_mask == a.addr_mask
    &&& b.expression_stack == a.expression_stack
    &&& b.value_result == a.value_result
}

/// the operation consumed exactly `total` bytes and fell through to the next operation; pieces untouched
spec fn next_ok<R: Reader<Offset = usize>, S: EvaluationStorage<R>>(a: Evaluation<R, S>, b: Evaluation<R, S>, total: int) -> bool {
    &&& frame_misc(a, b)
    &&& b.result@ == a.result@
    &&& total >= 1
    &&& adv(a.pc.rv(), b.pc.rv(), total as nat)
}

/// DW_OP_skip / taken DW_OP_bra: the new pc is the byte `off` bytes after the end of the 3-byte operation, which must
/// lie in [0, len] of the *current* expression (DWARF 5 2.5.1.5)
spec fn branch_ok<R: Reader<Offset = usize>, S: EvaluationStorage<R>>(a: Evaluation<R, S>, b: Evaluation<R, S>, off: int) -> bool {
    let t = (a.pc.rv().start + 3 - a.bytecode.rv().start) as int + off;
    &&& frame_misc(a, b)
    &&& b.result@ == a.result@
    &&& 0 <= t <= a.bytecode.rv().len
    &&& adv(a.bytecode.rv(), b.pc.rv(), t as nat)
}

/// number of value-stack slots / result pieces / nested calls the storage can hold
spec fn stack_cap<R: Reader<Offset = usize>, S: EvaluationStorage<R>>(a: Evaluation<R, S>) -> nat {
    <S::Stack as ArrayLike>::cap()
}
spec fn result_cap<R: Reader<Offset = usize>, S: EvaluationStorage<R>>(a: Evaluation<R, S>) -> nat {
    <S::Result as ArrayLike>::cap()
}
spec fn call_cap<R: Reader<Offset = usize>, S: EvaluationStorage<R>>(a: Evaluation<R, S>) -> nat {
    <S::ExpressionStack as ArrayLike>::cap()
}

/// structural invariant of the machine: the pc is a position inside the current expression, and so is every saved
/// (pc, bytecode) pair of the call stack
spec fn wf<R: Reader<Offset = usize>, S: EvaluationStorage<R>>(a: Evaluation<R, S>) -> bool {
    &&& inside(a.bytecode.rv(), a.pc.rv())
    &&& forall|i: int| 0 <= i < a.expression_stack@.len() ==> inside((#[trigger] a.expression_stack@[i]).1.rv(), a.expression_stack@[i].0.rv())
}

/// "Nothing is left to run" (DWARF 5 2.5.1.5, DW_OP_call2/call4/call_ref: the callee is evaluated as if it stood at the place
/// of the call, "after which control is transferred back" to the operation following the call; 2.6.1.2: a composite location
/// description is the whole list of pieces of the *whole* expression).  With nested calls the whole expression is finished
/// iff the current (innermost) expression is exhausted AND every saved caller frame is exhausted too -- an exhausted callee
/// alone is NOT the end while some caller still has operations after its call.
spec fn whole_done<R: Reader<Offset = usize>, S: EvaluationStorage<R>>(a: Evaluation<R, S>) -> bool {
    &&& a.pc.rv().len == 0
    &&& forall|i: int| 0 <= i < a.expression_stack@.len() ==> (#[trigger] a.expression_stack@[i]).0.rv().len == 0
}

/// DWARF 5 2.6.1.2: every piece of a composite location description is sized by its DW_OP_piece / DW_OP_bit_piece; a
/// location description WITHOUT a following piece operation describes the whole object, hence it is the only element of
/// the result and the evaluation is over (current expression exhausted, no caller frame pending).
spec fn whole_object_final<R: Reader<Offset = usize>, S: EvaluationStorage<R>>(a: Evaluation<R, S>) -> bool {
    &&& a.result@.len() == 1
    &&& a.result@[0].size_in_bits is None
    &&& a.pc.rv().len == 0
    &&& a.expression_stack@.len() == 0
}

/// every piece collected so far carries the size its DW_OP_piece / DW_OP_bit_piece gave it
spec fn sized_only<R: Reader<Offset = usize>, S: EvaluationStorage<R>>(a: Evaluation<R, S>) -> bool {
    forall|i: int| 0 <= i < a.result@.len() ==> (#[trigger] a.result@[i]).size_in_bits is Some
}

/// [C07:whole-object-piece-final] the result is either a composite of sized pieces, or ONE whole-object piece with nothing
/// left to run -- a whole-object piece never coexists with other pieces, remaining operations or pending caller frames
spec fn pieces_ok<R: Reader<Offset = usize>, S: EvaluationStorage<R>>(a: Evaluation<R, S>) -> bool {
    sized_only(a) || whole_object_final(a)
}

/// DWARF 5 2.6.1.2: only DW_OP_piece / DW_OP_bit_piece append to the composite, and the piece they append is sized
spec fn step_pieces<R: Reader<Offset = usize>, S: EvaluationStorage<R>>(a: Evaluation<R, S>, z: Evaluation<R, S>, r: OperationEvaluationResult<R>) -> bool {
    if r is Piece {
        z.result@.len() == a.result@.len() + 1 && z.result@ =~= a.result@.push(z.result@.last()) && z.result@.last().size_in_bits is Some
    } else {
        z.result@ == a.result@
    }
}

/// the request handed to the caller is the one belonging to the continuation the machine stored
spec fn request_matches<R: Reader<Offset = usize>>(w: EvaluationWaiting<R>, r: EvaluationResult<R>) -> bool {
    match w {
        EvaluationWaiting::Memory => r is RequiresMemory,
        EvaluationWaiting::Register { .. } => r is RequiresRegister,
        EvaluationWaiting::FrameBase { .. } => r is RequiresFrameBase,
        EvaluationWaiting::Tls => r is RequiresTls,
        EvaluationWaiting::Cfa => r is RequiresCallFrameCfa,
        EvaluationWaiting::AtLocation => r is RequiresAtLocation,
        EvaluationWaiting::EntryValue => r is RequiresEntryValue,
        EvaluationWaiting::ParameterRef => r is RequiresParameterRef,
        EvaluationWaiting::RelocatedAddress => r is RequiresRelocatedAddress,
        EvaluationWaiting::IndexedAddress => r is RequiresIndexedAddress,
        EvaluationWaiting::TypedLiteral { .. } => r is RequiresBaseType,
        EvaluationWaiting::Convert => r is RequiresBaseType,
        EvaluationWaiting::Reinterpret => r is RequiresBaseType,
        EvaluationWaiting::WasmValue => r is RequiresWasmLocal || r is RequiresWasmGlobal || r is RequiresWasmStack,
    }
}

/// configuration that no evaluation step changes
spec fn config_same<R: Reader<Offset = usize>, S: EvaluationStorage<R>>(a: Evaluation<R, S>, b: Evaluation<R, S>) -> bool {
    &&& b.encoding == a.encoding
    &&& b.object_address == a.object_address
    &&& b.max_iterations == a.max_iterations
    &&& b.addr_mask == a.addr_mask
}

/// iteration budget (C01/C07): with a limit m the counter never exceeds max(old, m) + 1
pub open spec fn budget_bound(old_iteration: u32, max: Option<u32>, iteration: u32) -> bool {
    max matches Some(m) ==> iteration <= (if old_iteration > m { old_iteration } else { m }) + 1
}

/// what `end_of_expression` (return from finished DW_OP_call* callees) leaves alone
spec fn frame_eoe<R: Reader<Offset = usize>, S: EvaluationStorage<R>>(a: Evaluation<R, S>, b: Evaluation<R, S>) -> bool {
    &&& config_same(a, b)
    &&& b.iteration == a.iteration
    &&& b.state == a.state
    &&& b.stack == a.stack
    &&& b.value_result == a.value_result
    &&& b.result == a.result
}

spec fn only_state_changed<R: Reader<Offset = usize>, S: EvaluationStorage<R>>(a: Evaluation<R, S>, b: Evaluation<R, S>) -> bool {
    &&& config_same(a, b)
    &&& b.iteration == a.iteration
    &&& b.stack == a.stack
    &&& b.value_result == a.value_result
    &&& b.result == a.result
    &&& b.pc == a.pc
    &&& b.bytecode == a.bytecode
    &&& b.expression_stack == a.expression_stack
}

/// public ghost mirror of the (private) `EvaluationState` / `EvaluationWaiting`, so that the documented call protocol of
/// the pub API can be written as `requires`
pub ghost enum Phase {
    Start(Option<u64>), Ready, Failed(Error), Complete,
    WaitMemory, WaitRegister { offset: i64 }, WaitFrameBase { offset: i64 }, WaitTls, WaitCfa, WaitAtLocation, WaitEntryValue,
    WaitParameterRef, WaitRelocatedAddress, WaitIndexedAddress, WaitTypedLiteral, WaitConvert, WaitReinterpret, WaitWasmValue,
}

impl Phase {
    pub open spec fn waiting(self) -> bool {
        !(self is Start || self is Ready || self is Failed || self is Complete)
    }
}

spec fn phase_of<R: Reader<Offset = usize>>(s: EvaluationState<R>) -> Phase {
    match s {
        EvaluationState::Start(v) => Phase::Start(v),
        EvaluationState::Ready => Phase::Ready,
        EvaluationState::Error(e) => Phase::Failed(e),
        EvaluationState::Complete => Phase::Complete,
        EvaluationState::Waiting(w) => match w {
            EvaluationWaiting::Memory => Phase::WaitMemory,
            EvaluationWaiting::Register { offset } => Phase::WaitRegister { offset },
            EvaluationWaiting::FrameBase { offset } => Phase::WaitFrameBase { offset },
            EvaluationWaiting::Tls => Phase::WaitTls,
            EvaluationWaiting::Cfa => Phase::WaitCfa,
            EvaluationWaiting::AtLocation => Phase::WaitAtLocation,
            EvaluationWaiting::EntryValue => Phase::WaitEntryValue,
            EvaluationWaiting::ParameterRef => Phase::WaitParameterRef,
            EvaluationWaiting::RelocatedAddress => Phase::WaitRelocatedAddress,
            EvaluationWaiting::IndexedAddress => Phase::WaitIndexedAddress,
            EvaluationWaiting::TypedLiteral { .. } => Phase::WaitTypedLiteral,
            EvaluationWaiting::Convert => Phase::WaitConvert,
            EvaluationWaiting::Reinterpret => Phase::WaitReinterpret,
            EvaluationWaiting::WasmValue => Phase::WaitWasmValue,
        },
    }
}
