// ---- unit header layout, written from DWARF 5 section 7.5.1 (7.5.1.1 full/partial, 7.5.1.2 skeleton/split full,
// 7.5.1.3 type units) and DWARF 2-4 section 7.5.1.1 / 7.5.1.2.  Ghost code only.
//
//   versions 2-4:  unit_length(4|12)  version(2)  debug_abbrev_offset(4|8)  address_size(1)
//                  [.debug_types only: type_signature(8) type_offset(4|8)]
//   version 5:     unit_length(4|12)  version(2)  unit_type(1)  address_size(1)  debug_abbrev_offset(4|8)
//                  DW_UT_skeleton / DW_UT_split_compile:  dwo_id(8)
//                  DW_UT_type / DW_UT_split_type:         type_signature(8)  type_offset(4|8)
//   unit type codes (table 7.2): compile 1, type 2, partial 3, skeleton 4, split_compile 5, split_type 6
pub ghost struct HdrLayout {
    /// size of the initial length field (4, or 12 for the 64-bit format)
    pub il: nat,
    /// unit_length: number of bytes of the unit after the initial length field
    pub len: nat,
    pub fmt: crate::common::Format,
    pub version: nat,
    /// unit type code; for versions 2-4 implied by the section (.debug_types => type unit)
    pub ut: u8,
    pub addr_size: u8,
    pub abbrev: nat,
    /// size of the header up to and including the last field common to all unit types
    pub common: nat,
    /// size of the unit-type specific fields
    pub extra: nat,
    /// dwo_id / type_signature (8 bytes at offset `common`)
    pub id: nat,
    /// type_offset (word at offset `common + 8`)
    pub type_off: nat,
}

impl HdrLayout {
    /// total header size including the initial length field
    pub open spec fn total(self) -> nat { self.common + self.extra }
    /// offset one past the last byte of the unit
    pub open spec fn unit_end(self) -> nat { self.il + self.len }
}

pub open spec fn ut_has_type(ut: u8) -> bool { ut == 0x02 || ut == 0x06 }
pub open spec fn ut_has_dwo_id(ut: u8) -> bool { ut == 0x04 || ut == 0x05 }
pub open spec fn ut_known(ut: u8) -> bool { 0x01 <= ut <= 0x06 }

pub open spec fn unit_hdr_layout(v: RView, types_section: bool) -> HdrLayout {
    let w = v.u(0, 4);
    let d64 = w == 0xffff_ffff;
    let il: int = if d64 { 12 } else { 4 };
    let len: nat = if d64 { v.u(4, 8) } else { w };
    let ws: int = if d64 { 8 } else { 4 };
    let version = v.u(il, 2);
    let v5 = version == 5;
    let ut: u8 = if v5 { v.at(il + 2) } else if types_section { 0x02u8 } else { 0x01u8 };
    let common: int = if v5 { il + 2 + 1 + 1 + ws } else { il + 2 + ws + 1 };
    let extra: int = if ut_has_type(ut) { 8 + ws } else if ut_has_dwo_id(ut) { 8 } else { 0 };
    HdrLayout {
        il: il as nat, len,
        fmt: if d64 { crate::common::Format::Dwarf64 } else { crate::common::Format::Dwarf32 },
        version, ut,
        addr_size: if v5 { v.at(il + 3) } else { v.at(il + 2 + ws) },
        abbrev: if v5 { v.u(il + 4, ws) } else { v.u(il + 2, ws) },
        common: common as nat, extra: extra as nat,
        id: v.u(common, 8),
        type_off: v.u(common + 8, ws),
    }
}

/// the header is one this library must accept: everything else must be an error
pub open spec fn unit_hdr_ok(v: RView, types_section: bool) -> bool {
    let h = unit_hdr_layout(v, types_section);
    &&& v.len >= 4
    &&& (v.u(0, 4) < 0xffff_fff0 || v.u(0, 4) == 0xffff_ffff)
    &&& h.unit_end() <= v.len
    &&& 2 <= h.version <= 5
    &&& ut_known(h.ut)
    &&& valid_address_size(h.addr_size)
    &&& h.total() <= h.unit_end()
}

/// header size as a function of (format, version, unit type): the formula of `UnitHeader::size_of_header`
pub open spec fn unit_hdr_size(fmt: crate::common::Format, version: u16, has_type: bool, has_dwo_id: bool) -> nat {
    let il: nat = match fmt { crate::common::Format::Dwarf32 => 4, crate::common::Format::Dwarf64 => 12 };
    il + 2 + word_size(fmt) + 1 + (if version == 5 { 1nat } else { 0nat })
        + (if has_type { 8 + word_size(fmt) } else if has_dwo_id { 8 } else { 0 })
}

/// the view `v` advanced by `n` bytes
pub open spec fn advanced(v: RView, n: nat) -> RView {
    RView { root: v.root, start: v.start + n, len: (v.len - n) as nat, be: v.be }
}

// ---- abbreviation declarations, DWARF 5 section 7.5.3:
//   declaration := uleb code (!= 0)  uleb tag  u8 children (DW_CHILDREN_no 0 | DW_CHILDREN_yes 1)  attribute-spec*  (0, 0)
//   attribute-spec := uleb name  uleb form  [sleb value   if form == DW_FORM_implicit_const (0x21)]
/// one attribute specification
pub ghost struct ASpec { pub name: nat, pub form: nat, pub ic: int }

/// the attribute specification encoded at offset p
pub open spec fn aspec_at(v: RView, p: int) -> ASpec {
    let p1 = p + v.leb_len(p);
    let p2 = p1 + v.leb_len(p1);
    let form = v.uleb(p1);
    ASpec { name: v.uleb(p), form, ic: if form == 0x21 { v.sleb(p2) } else { 0 } }
}
/// its encoded size
pub open spec fn aspec_size(v: RView, p: int) -> nat {
    let p1 = p + v.leb_len(p);
    let p2 = p1 + v.leb_len(p1);
    ((p2 - p) + (if v.uleb(p1) == 0x21 { v.leb_len(p2) } else { 0 })) as nat
}
pub open spec fn aspec_end_marker(a: ASpec) -> bool { a.name == 0 && a.form == 0 }

/// the attribute specifications of a declaration whose list starts at offset p (terminator excluded)
pub open spec fn aspecs(v: RView, p: int) -> Seq<ASpec>
    decreases v.len - p
{
    if p >= v.len || aspec_end_marker(aspec_at(v, p)) || aspec_size(v, p) == 0 || p + aspec_size(v, p) > v.len { Seq::empty() }
    else { seq![aspec_at(v, p)] + aspecs(v, p + aspec_size(v, p)) }
}
/// encoded size of that list including the (0, 0) terminator
pub open spec fn aspecs_size(v: RView, p: int) -> nat
    decreases v.len - p
{
    if p >= v.len || aspec_end_marker(aspec_at(v, p)) || aspec_size(v, p) == 0 || p + aspec_size(v, p) > v.len { aspec_size(v, p) }
    else { aspec_size(v, p) + aspecs_size(v, p + aspec_size(v, p)) }
}

/// the list seen from a later read position of the same window is the list at the shifted offset
pub proof fn lemma_aspecs_shift(v: RView, w: RView, p: int)
    requires within(v, w), p >= 0
    ensures aspecs(w, p) == aspecs(v, w.start - v.start + p), aspecs_size(w, p) == aspecs_size(v, w.start - v.start + p)
    decreases w.len - p
{
    let q = w.start - v.start;
    assert(aspec_at(w, p) == aspec_at(v, q + p));
    assert(aspec_size(w, p) == aspec_size(v, q + p));
    if p >= w.len || aspec_end_marker(aspec_at(w, p)) || aspec_size(w, p) == 0 || p + aspec_size(w, p) > w.len {
    } else {
        lemma_aspecs_shift(v, w, p + aspec_size(w, p));
    }
}

// ---- runs of null entries (abbreviation code 0), as skipped by the depth-first cursor
/// offset just past k consecutive null entries starting at the read position
pub open spec fn null_run_end(v: RView, k: nat) -> int
    decreases k
{
    if k == 0 { 0 } else { null_run_end(v, (k - 1) as nat) + v.leb_len(null_run_end(v, (k - 1) as nat)) }
}
/// the first k entries at the read position are all null entries lying inside the window
pub open spec fn null_run_ok(v: RView, k: nat) -> bool
    decreases k
{
    if k == 0 { true } else {
        let q = null_run_end(v, (k - 1) as nat);
        null_run_ok(v, (k - 1) as nat) && 0 <= q && v.leb_ok(q) && v.uleb(q) == 0
    }
}

// ---- the abbreviation table as a sequence of declarations (DWARF 5 section 7.5.3)
/// encoded size of the declaration starting at offset p: code, tag, children byte, attribute specifications incl. terminator
pub open spec fn decl_size(v: RView, p: int) -> int {
    let p1 = p + v.leb_len(p);
    let p2 = p1 + v.leb_len(p1);
    (p2 + 1 - p) + aspecs_size(v, p2 + 1)
}
/// offset of the i-th declaration of the table that starts at the read position
pub open spec fn decl_start(v: RView, i: nat) -> int
    decreases i
{
    if i == 0 { 0 } else { decl_start(v, (i - 1) as nat) + decl_size(v, decl_start(v, (i - 1) as nat)) }
}
pub open spec fn decl_code(v: RView, i: nat) -> nat { v.uleb(decl_start(v, i)) }
pub open spec fn decl_tag(v: RView, i: nat) -> nat { let p = decl_start(v, i); v.uleb(p + v.leb_len(p)) }
pub open spec fn decl_children(v: RView, i: nat) -> u8 { let p = decl_start(v, i); let p1 = p + v.leb_len(p); v.at(p1 + v.leb_len(p1)) }
pub open spec fn decl_specs(v: RView, i: nat) -> Seq<ASpec> { let p = decl_start(v, i); let p1 = p + v.leb_len(p); aspecs(v, p1 + v.leb_len(p1) + 1) }
/// the table ends after n declarations: end of input, or a null declaration (code 0)
pub open spec fn table_ends(v: RView, n: nat) -> bool {
    decl_start(v, n) == v.len || (0 <= decl_start(v, n) < v.len && decl_code(v, n) == 0)
}
