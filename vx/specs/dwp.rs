// ---- package contribution rows (DWARF 5 7.3.5.3; GNU DebugFission v2): pure mathematics over a row of the two tables
//
// A row of the table of section offsets / sizes has one 4-byte entry per column; column j belongs to the section whose
// identifier stands in column j of the header row (`ks[j]`, already mapped to IndexSectionId by UnitIndex::parse).

/// (offset, size) of the contribution of section kind `k` among the first n columns of the row (os = the row of the
/// offsets table, ss = the row of the sizes table): the entry of the column of that kind; (0, 0) when there is none.
/// (On a malformed row that names a kind twice this is the last such column; see lemma_contrib_unique.)
pub open spec fn contrib(ks: Seq<IndexSectionId>, os: RView, ss: RView, k: IndexSectionId, n: int) -> (nat, nat)
    decreases n
{
    if n <= 0 { (0, 0) }
    else if ks[n - 1] == k { (os.u(4 * (n - 1), 4), ss.u(4 * (n - 1), 4)) }
    else { contrib(ks, os, ss, k, n - 1) }
}

/// contrib-unique: if column j is THE column of kind k (the section identifiers of a well-formed row are distinct),
/// the contribution is the j-th offset and the j-th size
pub proof fn lemma_contrib_unique(ks: Seq<IndexSectionId>, os: RView, ss: RView, k: IndexSectionId, j: int, n: int)
    requires 0 <= j < n <= ks.len(), ks[j] == k, forall|i: int| 0 <= i < n && i != j ==> ks[i] != k
    ensures contrib(ks, os, ss, k, n) == (os.u(4 * j, 4), ss.u(4 * j, 4)) // [C17:contrib-unique]
    decreases n
{
    if n - 1 != j { lemma_contrib_unique(ks, os, ss, k, j, n - 1); }
}

/// contrib-absent: a kind without a column has the empty contribution
pub proof fn lemma_contrib_absent(ks: Seq<IndexSectionId>, os: RView, ss: RView, k: IndexSectionId, n: int)
    requires 0 <= n <= ks.len(), forall|i: int| 0 <= i < n ==> ks[i] != k
    ensures contrib(ks, os, ss, k, n) == (0nat, 0nat) // [C17:contrib-absent]
    decreases n
{
    if n > 0 { lemma_contrib_absent(ks, os, ss, k, n - 1); }
}
