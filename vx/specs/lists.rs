// ---- spec functions for range / location lists (DESIGN.md Appendix A.5), written from DWARF 5 sections 2.17.3, 2.6.2,
// 7.7.3, 7.25-7.29 and DWARF 4 sections 2.6.2 / 2.17.3 for the legacy pair format; ghost code only

/// a + b in an address space of `size` bytes (sums wrap at the address size)
pub open spec fn wrap_add(a: u64, b: u64, size: u8) -> u64 {
    ((a as int + b as int) % (ones(size) as int + 1)) as u64
}

/// smallest address that is treated as a tombstone: -2 in the address size  (all-ones is -1)
pub open spec fn min_tomb(size: u8) -> u64 {
    (ones(size) - 1) as u64
}

/// an address range is reported iff it is non-empty and begins below the tombstone addresses
pub open spec fn yielded(begin: u64, end: u64, size: u8) -> bool {
    begin < end && begin < min_tomb(size)
}

/// entry `idx` of a table of `esz`-byte entries that starts `base` bytes into the section `sec`:
/// position with MATHEMATICAL multiplication
pub open spec fn tab_pos(base: nat, idx: nat, esz: nat) -> nat {
    base + idx * esz
}
/// the entry lies inside the section
pub open spec fn tab_in(sec: RView, base: nat, idx: nat, esz: nat) -> bool {
    tab_pos(base, idx, esz) + esz <= sec.len
}
/// its value
pub open spec fn tab_at(sec: RView, base: nat, idx: nat, esz: nat) -> nat {
    sec.u(tab_pos(base, idx, esz) as int, esz as int)
}

/// what a list resolver reports for the candidate range [begin, end)
pub open spec fn filt(begin: u64, end: u64, size: u8) -> Option<(u64, u64)> {
    if yielded(begin, end, size) { Some((begin, end)) } else { None }
}

/// offset pair (pre-v5 pair, DW_RLE/DW_LLE_offset_pair) under the running base address
pub open spec fn resolve_offset_pair(base: u64, b: u64, e: u64, size: u8) -> Option<(u64, u64)> {
    if base >= min_tomb(size) { None } else { filt(wrap_add(base, b, size), wrap_add(base, e, size), size) }
}

/// counted location description (DWARF 5 section 2.6.2: ULEB128 length; GNU v4 split-DWARF extension: 2-byte length)
/// at absolute position `pos` of `root`: size of the length field, and the length.
/// Opaque: decoders only need to know *that* the operand is this function of the bytes; `parse_data` reveals it.
#[verifier::opaque]
pub open spec fn cld_hdr_at(root: Seq<u8>, pos: int, end: int, be: bool, version: u16) -> nat {
    if version >= 5 { leb_len_in(root, pos, end) } else { 2 }
}
#[verifier::opaque]
pub open spec fn cld_len_at(root: Seq<u8>, pos: int, end: int, be: bool, version: u16) -> nat {
    if version >= 5 { uleb_in(root, pos, end) } else { uint_at(root, pos, 2, be) }
}
pub open spec fn cld_hdr(b: RView, p: int, version: u16) -> nat {
    cld_hdr_at(b.root, b.start + p, b.end() as int, b.be, version)
}
pub open spec fn cld_len(b: RView, p: int, version: u16) -> nat {
    cld_len_at(b.root, b.start + p, b.end() as int, b.be, version)
}
/// length operand of DW_LLE_startx_length: ULEB128 in DWARF 5, fixed 4 bytes in the GNU v4 split-DWARF extension
pub open spec fn len4_size(b: RView, p: int, version: u16) -> nat {
    if version >= 5 { b.leb_len(p) } else { 4 }
}
pub open spec fn len4_val(b: RView, p: int, version: u16) -> nat {
    if version >= 5 { b.uleb(p) } else { b.u(p, 4) }
}
