// ---- call frame semantics written from DWARF 5 section 6.4.2 (DESIGN.md Appendix A.4); ghost code only.
// The abstract unwind context: a stack of rows (the implicit stack of DW_CFA_remember_state, current row on top)
// plus the initial rules captured after the CIE's initial instructions (None while those are being evaluated).

/// two's complement wrap-around to 64 bits (gimli documents factored products as wrapping)
pub open spec fn wrap_u64(x: int) -> u64 { (x % 0x1_0000_0000_0000_0000int) as u64 }
pub open spec fn wrap_i64(x: int) -> i64 {
    let m = x % 0x1_0000_0000_0000_0000int;
    if m >= 0x8000_0000_0000_0000int { (m - 0x1_0000_0000_0000_0000int) as i64 } else { m as i64 }
}

/// the unsigned offset N of a factored instruction times the data alignment factor: congruent whether N is read as
/// unsigned or reinterpreted as i64 first (what the code does)
pub proof fn lemma_wrap_mul_reinterpret(n: u64, daf: i64)
    ensures wrap_i64(wrap_i64(n as int) as int * daf as int) == wrap_i64(n as int * daf as int)
{
    let m = 0x1_0000_0000_0000_0000int;
    assert(n as int % m == n as int);
    if n as int >= 0x8000_0000_0000_0000int {
        let a = n as int - m;
        assert(wrap_i64(n as int) as int == a);
        assert(a * (daf as int) == m * (-(daf as int)) + (n as int) * (daf as int)) by (nonlinear_arith)
            requires a == n as int - m;
        vstd::arithmetic::div_mod::lemma_mod_multiples_vanish(-(daf as int), (n as int) * (daf as int), m);
    } else {
        assert(wrap_i64(n as int) as int == n as int);
    }
}

#[verifier::reject_recursive_types(T)]
/// `x as i64` on a u64 is the two's complement reinterpretation
pub proof fn lemma_u64_as_i64(x: u64)
    ensures (x as i64) as int == wrap_i64(x as int) as int
{
    assert((x as i64) as int == (if x >= 0x8000_0000_0000_0000u64 { x as int - 0x1_0000_0000_0000_0000int } else { x as int })) by (bit_vector);
    assert(x as int % 0x1_0000_0000_0000_0000int == x as int);
}

#[verifier::reject_recursive_types(T)]
pub ghost struct ARow<T: ReaderOffset> {
    pub start: u64,
    pub end: u64,
    pub cfa: CfaRule<T>,
    pub rules: Map<Register, RegisterRule<T>>,
    pub args_size: u64,
}

#[verifier::reject_recursive_types(T)]
pub ghost struct ACtx<T: ReaderOffset> {
    /// rows saved by remember_state, the row under construction last
    pub stack: Seq<ARow<T>>,
    /// the register rules at the end of the CIE's initial instructions; None while the CIE is being evaluated
    pub initial: Option<Map<Register, RegisterRule<T>>>,
    /// number of row slots of the fixed storage that hold the initial rules (0 or 1; an implementation detail that
    /// only matters for *when* StackFull is reported)
    pub reserved: nat,
}

/// storage limits of an UnwindContextStorage (rows of the state stack, rules per row) and the CIE parameters
pub ghost struct CfaParams {
    pub caf: u64,
    pub daf: i64,
    pub address_size: u8,
    pub max_rows: nat,
    pub max_rules: nat,
}

pub ghost enum AErr {
    SetLocBackwards(u64),
    AddressOverflow,
    InvalidContext,
    TooManyRegisterRules,
    StackFull,
    PopWithEmptyStack,
}

#[verifier::reject_recursive_types(T)]
pub ghost struct AStep<T: ReaderOffset> {
    /// Ok(true): the current row is complete; Ok(false): row still under construction
    pub res: core::result::Result<bool, AErr>,
    pub ctx: ACtx<T>,
    /// start address of the next row
    pub next_start: u64,
}

impl<T: ReaderOffset> ACtx<T> {
    pub open spec fn wf(self) -> bool { self.stack.len() >= 1 && self.reserved <= 1 }
    pub open spec fn top(self) -> ARow<T> { self.stack.last() }
    pub open spec fn with_top(self, row: ARow<T>) -> ACtx<T> { ACtx { stack: self.stack.drop_last().push(row), ..self } }
    /// a fresh context: one default row (CFA = register 0 + 0, no rules), no initial rules
    pub open spec fn fresh() -> ACtx<T> {
        ACtx { stack: seq![ARow { start: 0, end: 0, cfa: CfaRule::RegisterAndOffset { register: Register(0), offset: 0 }, rules: Map::empty(), args_size: 0 }],
               initial: None, reserved: 0 }
    }
}

/// replacing the current row by itself is the identity
pub broadcast proof fn lemma_with_top_top<T: ReaderOffset>(ctx: ACtx<T>)
    requires ctx.stack.len() >= 1
    ensures #[trigger] ctx.with_top(ctx.top()) == ctx
{
    assert(ctx.stack.drop_last().push(ctx.stack.last()) =~= ctx.stack);
}

pub open spec fn rules_len<T: ReaderOffset>(m: Map<Register, RegisterRule<T>>) -> nat { m.dom().len() }

/// rule(reg) := rule on the current row; TooManyRegisterRules when a new register does not fit the fixed storage
pub open spec fn set_rule<T: ReaderOffset>(ctx: ACtx<T>, p: CfaParams, next: u64, reg: Register, rule: RegisterRule<T>) -> AStep<T> {
    let top = ctx.top();
    if !top.rules.contains_key(reg) && rules_len(top.rules) >= p.max_rules {
        AStep { res: Err(AErr::TooManyRegisterRules), ctx: ctx, next_start: next }
    } else {
        AStep { res: Ok(false), ctx: ctx.with_top(ARow { rules: top.rules.insert(reg, rule), ..top }), next_start: next }
    }
}

pub open spec fn set_cfa<T: ReaderOffset>(ctx: ACtx<T>, next: u64, cfa: CfaRule<T>) -> AStep<T> {
    AStep { res: Ok(false), ctx: ctx.with_top(ARow { cfa: cfa, ..ctx.top() }), next_start: next }
}

pub open spec fn step_err<T: ReaderOffset>(ctx: ACtx<T>, next: u64, e: AErr) -> AStep<T> {
    AStep { res: Err(e), ctx: ctx, next_start: next }
}

/// DWARF register number of the AArch64 pseudo register RA_SIGN_STATE (DWARF for the Arm 64-bit architecture, 4.1)
pub open spec fn ra_sign_state() -> Register { Register(34) }

/// one call frame instruction (DWARF 5 section 6.4.2) on the abstract context
pub open spec fn cfa_step<T: ReaderOffset>(ctx: ACtx<T>, i: CallFrameInstruction<T>, p: CfaParams, next: u64) -> AStep<T> {
    let top = ctx.top();
    match i {
        // 6.4.2.1 row creation: the new location must not be less than the current one
        CallFrameInstruction::SetLoc { address } =>
            if address < top.start { step_err(ctx, next, AErr::SetLocBackwards(address)) }
            else { AStep { res: Ok(true), ctx: ctx.with_top(ARow { end: address, ..top }), next_start: address } },
        CallFrameInstruction::AdvanceLoc { delta } => {
            let a = top.start as int + wrap_u64(delta as int * p.caf as int) as int;
            if a > ones(p.address_size) as int { step_err(ctx, next, AErr::AddressOverflow) }
            else { AStep { res: Ok(true), ctx: ctx.with_top(ARow { end: a as u64, ..top }), next_start: a as u64 } }
        },
        // 6.4.2.2 CFA definition
        CallFrameInstruction::DefCfa { register, offset } =>
            set_cfa(ctx, next, CfaRule::RegisterAndOffset { register: register, offset: wrap_i64(offset as int) }),
        CallFrameInstruction::DefCfaSf { register, factored_offset } =>
            set_cfa(ctx, next, CfaRule::RegisterAndOffset { register: register, offset: wrap_i64(factored_offset as int * p.daf as int) }),
        CallFrameInstruction::DefCfaRegister { register } =>
            match top.cfa {
                CfaRule::RegisterAndOffset { register: r0, offset } => set_cfa(ctx, next, CfaRule::RegisterAndOffset { register: register, offset: offset }),
                CfaRule::Expression(e) => step_err(ctx, next, AErr::InvalidContext),
            },
        CallFrameInstruction::DefCfaOffset { offset } =>
            match top.cfa {
                CfaRule::RegisterAndOffset { register, offset: o0 } => set_cfa(ctx, next, CfaRule::RegisterAndOffset { register: register, offset: wrap_i64(offset as int) }),
                CfaRule::Expression(e) => step_err(ctx, next, AErr::InvalidContext),
            },
        CallFrameInstruction::DefCfaOffsetSf { factored_offset } =>
            match top.cfa {
                CfaRule::RegisterAndOffset { register, offset: o0 } => set_cfa(ctx, next, CfaRule::RegisterAndOffset { register: register, offset: wrap_i64(factored_offset as int * p.daf as int) }),
                CfaRule::Expression(e) => step_err(ctx, next, AErr::InvalidContext),
            },
        CallFrameInstruction::DefCfaExpression { expression } => set_cfa(ctx, next, CfaRule::Expression(expression)),
        // 6.4.2.3 register rules
        CallFrameInstruction::Undefined { register } => set_rule(ctx, p, next, register, RegisterRule::Undefined),
        CallFrameInstruction::SameValue { register } => set_rule(ctx, p, next, register, RegisterRule::SameValue),
        CallFrameInstruction::Offset { register, factored_offset } =>
            set_rule(ctx, p, next, register, RegisterRule::Offset(wrap_i64(factored_offset as int * p.daf as int))),
        CallFrameInstruction::OffsetExtendedSf { register, factored_offset } =>
            set_rule(ctx, p, next, register, RegisterRule::Offset(wrap_i64(factored_offset as int * p.daf as int))),
        CallFrameInstruction::ValOffset { register, factored_offset } =>
            set_rule(ctx, p, next, register, RegisterRule::ValOffset(wrap_i64(factored_offset as int * p.daf as int))),
        CallFrameInstruction::ValOffsetSf { register, factored_offset } =>
            set_rule(ctx, p, next, register, RegisterRule::ValOffset(wrap_i64(factored_offset as int * p.daf as int))),
        CallFrameInstruction::Register { dest_register, src_register } => set_rule(ctx, p, next, dest_register, RegisterRule::Register(src_register)),
        CallFrameInstruction::Expression { register, expression } => set_rule(ctx, p, next, register, RegisterRule::Expression(expression)),
        CallFrameInstruction::ValExpression { register, expression } => set_rule(ctx, p, next, register, RegisterRule::ValExpression(expression)),
        // restore: back to the rule assigned by the CIE's initial instructions; meaningless while those are evaluated
        CallFrameInstruction::Restore { register } =>
            match ctx.initial {
                None => step_err(ctx, next, AErr::InvalidContext),
                Some(m) => if m.contains_key(register) { set_rule(ctx, p, next, register, m[register]) }
                           else { AStep { res: Ok(false), ctx: ctx.with_top(ARow { rules: top.rules.remove(register), ..top }), next_start: next } },
            },
        // 6.4.2.4 row state
        CallFrameInstruction::RememberState =>
            if ctx.stack.len() + ctx.reserved >= p.max_rows { step_err(ctx, next, AErr::StackFull) }
            else { AStep { res: Ok(false), ctx: ACtx { stack: ctx.stack.push(top), ..ctx }, next_start: next } },
        CallFrameInstruction::RestoreState =>
            if ctx.stack.len() <= 1 { step_err(ctx, next, AErr::PopWithEmptyStack) }
            else {
                // the popped rules become the current row; the location of the current row is kept
                let popped = ACtx { stack: ctx.stack.drop_last(), ..ctx };
                AStep { res: Ok(false), ctx: popped.with_top(ARow { start: top.start, ..popped.top() }), next_start: next }
            },
        CallFrameInstruction::ArgsSize { size } => AStep { res: Ok(false), ctx: ctx.with_top(ARow { args_size: size, ..top }), next_start: next },
        // AArch64: toggle bit 0 of the RA_SIGN_STATE pseudo register (initially 0); any other rule on it is invalid
        CallFrameInstruction::NegateRaState => {
            let r = ra_sign_state();
            if !top.rules.contains_key(r) { set_rule(ctx, p, next, r, RegisterRule::Constant(1)) }
            else { match top.rules[r] {
                RegisterRule::Constant(v) => set_rule(ctx, p, next, r, RegisterRule::Constant(v ^ 1)),
                _ => step_err(ctx, next, AErr::InvalidContext),
            } }
        },
        // 6.4.2.5
        CallFrameInstruction::Nop => AStep { res: Ok(false), ctx: ctx, next_start: next },
    }
}

/// the concrete error of each abstract error case
pub open spec fn err_is(e: Error, a: AErr) -> bool {
    match a {
        AErr::SetLocBackwards(addr) => e == Error::InvalidCfiSetLoc(addr),
        AErr::AddressOverflow => true,    // reported by ReaderAddress::add_sized (contract: some error)
        AErr::InvalidContext => e == Error::CfiInstructionInInvalidContext,
        AErr::TooManyRegisterRules => e == Error::TooManyRegisterRules,
        AErr::StackFull => e == Error::StackFull,
        AErr::PopWithEmptyStack => e == Error::PopWithEmptyStack,
    }
}

/// exec result agrees with the abstract step
pub open spec fn res_is(r: core::result::Result<bool, Error>, a: core::result::Result<bool, AErr>) -> bool {
    match a {
        Ok(done) => r == Ok::<bool, Error>(done),
        Err(ae) => r matches Err(e) && err_is(e, ae),
    }
}
