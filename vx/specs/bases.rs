
// ---- table header layouts of the DWARF 5 offset-table sections (ghost code only; written from the standard, batch `bases`)

/// DWARF 5 section 7.4 (32-bit and 64-bit DWARF formats): "unit_length" is an initial length field -- one 4-byte word in
/// the 32-bit format; in the 64-bit format the 4-byte escape 0xffffffff followed by the 8-byte length
pub open spec fn unit_length_field(format: crate::common::Format) -> nat {
    match format { crate::common::Format::Dwarf32 => 4, crate::common::Format::Dwarf64 => 4 + 8 }
}

/// DWARF 5 section 7.26 (String Offsets Table): header = unit_length (initial length), version (uhalf), padding (uhalf);
/// the offsets follow the header
pub open spec fn hdr_size_str_offsets(format: crate::common::Format) -> nat {
    unit_length_field(format) + 2 + 2
}

/// DWARF 5 section 7.28 (Range List Table): header = unit_length (initial length), version (uhalf), address_size (ubyte),
/// segment_selector_size (ubyte), offset_entry_count (uword); the offsets table follows the header
pub open spec fn hdr_size_rnglists(format: crate::common::Format) -> nat {
    unit_length_field(format) + 2 + 1 + 1 + 4
}

/// DWARF 5 section 7.29 (Location List Table): header = unit_length (initial length), version (uhalf), address_size (ubyte),
/// segment_selector_size (ubyte), offset_entry_count (uword); the offsets table follows the header
pub open spec fn hdr_size_loclists(format: crate::common::Format) -> nat {
    unit_length_field(format) + 2 + 1 + 1 + 4
}

/// DWARF 5 sections 3.1.3 / 7.26-7.29 + Appendix F (split DWARF): DW_AT_str_offsets_base / DW_AT_rnglists_base /
/// DW_AT_loclists_base point just past the table header.  A version >= 5 unit in a .dwo file carries no such attribute (the
/// .dwo holds a single contribution per section): its tables start right after the one header at the start of the section,
/// i.e. the default base is the size `hdr` of that header.  In every other case the default is 0 (the attribute, if needed,
/// supplies the base; before DWARF 5 there are no headers).
pub open spec fn default_table_base(version: u16, file_type: crate::common::DwarfFileType, hdr: nat) -> nat {
    if version >= 5 && file_type == crate::common::DwarfFileType::Dwo { hdr } else { 0 }
}

/// the numbers, spelled out (a typo guard for the definitions above: 32-bit / 64-bit format)
pub proof fn lemma_hdr_sizes()
    ensures
        hdr_size_str_offsets(crate::common::Format::Dwarf32) == 8 && hdr_size_str_offsets(crate::common::Format::Dwarf64) == 16,
        hdr_size_rnglists(crate::common::Format::Dwarf32) == 12 && hdr_size_rnglists(crate::common::Format::Dwarf64) == 20,
        hdr_size_loclists(crate::common::Format::Dwarf32) == 12 && hdr_size_loclists(crate::common::Format::Dwarf64) == 20,
{
}

/// format selected by the first word of an initial length field (section 7.4)
pub open spec fn il_format_of(w: nat) -> crate::common::Format {
    if w == 0xffff_ffff { crate::common::Format::Dwarf64 } else { crate::common::Format::Dwarf32 }
}
