// ---- LEB128: lemmas that connect the shift/or loops of `leb128::read::{unsigned, signed, u16, skip}` (and the
// shift/mask loops of `leb128::write::Leb128::{unsigned, signed}`) to the recursive DWARF 5 section 7.6 specs
// `leb_len_in / uleb_in / sleb_in` of vx/specs/core.rs.  Ghost code only; every lemma is PROVED (no assume/admit).

/// weight of LEB128 group number k: 2^(7k)
pub proof fn lemma_pow2_7(k: nat)
    ensures pow2(7 * (k + 1)) == 128 * pow2(7 * k), pow2(7 * k) > 0, pow2(0) == 1, pow2(7) == 128,
{
    lemma_pow2_adds(7, 7 * k);
    lemma2_to64();
    lemma_pow2_pos(7 * k);
    assert(7 * (k + 1) == 7 + 7 * k);
}

// ---- machine arithmetic: one `result |= low_bits << shift` step is an addition of the group's weight
pub proof fn lemma_one_shl_u64(shift: u64)
    requires shift < 64,
    ensures pow2(shift as nat) == (1u64 << shift) as nat,
{
    vstd::bits::lemma_u64_pow2_no_overflow(shift as nat);
    vstd::bits::lemma_u64_shl_is_mul(1, shift);
}

pub proof fn lemma_shl_pow2_u64(lb: u64, shift: u64)
    requires shift <= 56 || (shift == 63 && lb <= 1), lb < 128,
    ensures (lb << shift) as nat == lb as nat * pow2(shift as nat), pow2(shift as nat) == (1u64 << shift) as nat,
{
    assert(lb * (1u64 << shift) <= u64::MAX) by (bit_vector)
        requires shift <= 56 || (shift == 63 && lb <= 1), lb < 128;
    vstd::bits::lemma_u64_pow2_no_overflow(shift as nat);
    vstd::bits::lemma_u64_shl_is_mul(1, shift);
    vstd::bits::lemma_u64_shl_is_mul(lb, shift);
}

pub proof fn lemma_or_add_u64(acc: u64, lb: u64, shift: u64)
    requires shift <= 56 || (shift == 63 && lb <= 1), lb < 128, (acc as nat) < pow2(shift as nat),
    ensures
        (acc | (lb << shift)) as nat == acc as nat + lb as nat * pow2(shift as nat),
        shift <= 56 ==> ((acc | (lb << shift)) as nat) < pow2((shift + 7) as nat),
{
    lemma_shl_pow2_u64(lb, shift);
    assert((acc | (lb << shift)) == acc + (lb << shift)) by (bit_vector)
        requires shift <= 56 || (shift == 63 && lb <= 1), lb < 128, acc < (1u64 << shift);
    if shift <= 56 {
        assert((acc | (lb << shift)) < (1u64 << ((shift + 7) as u64))) by (bit_vector)
            requires shift <= 56, lb < 128, acc < (1u64 << shift);
        lemma_one_shl_u64((shift + 7) as u64);
    }
}

pub proof fn lemma_or_add_i64(acc: i64, lb: i64, shift: u64)
    requires shift <= 56, 0 <= lb < 128, 0 <= acc, (acc as nat) < pow2(shift as nat),
    ensures
        (acc | (lb << shift)) as int == acc as int + lb as int * pow2(shift as nat),
        0 <= (acc | (lb << shift)),
{
    lemma_one_shl_u64(shift);
    lemma_shl_pow2_u64(lb as u64, shift);
    assert((acc | (lb << shift)) == acc + (lb << shift) && 0 <= (lb << shift) && (lb << shift) as u64 == (lb as u64) << shift
           && acc + (lb << shift) >= 0) by (bit_vector)
        requires shift <= 56, 0 <= lb < 128, 0 <= acc, (acc as u64) < (1u64 << shift);
}

/// the 10th group of a signed LEB128 (shift == 63): only 0x00 and 0x7f are accepted
pub proof fn lemma_or_add_i64_last(acc: i64, lb: i64)
    requires lb == 0 || lb == 0x7f, 0 <= acc,
    ensures (acc | (lb << 63u64)) as int == (if lb == 0 { acc as int } else { acc as int - pow2(63) }),
{
    lemma2_to64_rest();
    assert(lb == 0 ==> (acc | (lb << 63u64)) == acc) by (bit_vector);
    assert(lb == 0x7f && 0 <= acc ==> (acc | (lb << 63u64)) == acc + (-0x8000_0000_0000_0000i64)) by (bit_vector);
}

/// `result |= !0 << shift` on a value below 2^shift subtracts 2^shift (two's complement sign extension)
pub proof fn lemma_sign_extend_i64(acc: i64, shift: u64)
    requires shift < 64, 0 <= acc, (acc as nat) < pow2(shift as nat),
    ensures (acc | (!0i64 << shift)) as int == acc as int - pow2(shift as nat),
{
    lemma_one_shl_u64(shift);
    lemma2_to64_rest();
    if shift == 63 {
        assert(0 <= acc ==> (acc | (!0i64 << 63u64)) == acc + (-0x8000_0000_0000_0000i64)) by (bit_vector);
    } else {
        assert((acc | (!0i64 << shift)) == acc - (1i64 << shift) && 0 <= (1i64 << shift) && (1i64 << shift) as u64 == 1u64 << shift) by (bit_vector)
            requires shift < 63, 0 <= acc, (acc as u64) < (1u64 << shift);
    }
}

// ---- spec side: unrolling leb_len_in / uleb_in / sleb_in along the decoding loops
/// state of a LEB128 decoding loop that started at view `o`: `k` groups, every one with the continuation bit set, have
/// been consumed (current view `c`); `acc` is the value of those k groups (sum of low7(byte_i) * 2^(7i)).
/// Stated as the relation "spec of the whole == acc + 2^(7k) * spec of the rest".
pub open spec fn uleb_inv(o: RView, c: RView, k: nat, acc: nat) -> bool {
    &&& within(o, c) && c.start == o.start + k
    &&& o.leb_len(0) == k + leb_len_in(o.root, (o.start + k) as int, o.end() as int)
    &&& o.uleb(0) == acc + pow2(7 * k) * uleb_in(o.root, (o.start + k) as int, o.end() as int)
    &&& acc < pow2(7 * k)
}

pub open spec fn sleb_inv(o: RView, c: RView, k: nat, acc: nat) -> bool {
    &&& within(o, c) && c.start == o.start + k
    &&& o.leb_len(0) == k + leb_len_in(o.root, (o.start + k) as int, o.end() as int)
    &&& o.sleb(0) == acc + pow2(7 * k) * sleb_in(o.root, (o.start + k) as int, o.end() as int)
    &&& acc < pow2(7 * k)
}

/// `skip` only tracks the length
pub open spec fn skip_inv(o: RView, c: RView) -> bool {
    &&& within(o, c)
    &&& o.leb_len(0) == (c.start - o.start) + leb_len_in(o.root, c.start as int, o.end() as int)
}

pub proof fn lemma_leb_len_pos(root: Seq<u8>, p: int, e: int)
    ensures leb_len_in(root, p, e) >= 1,
{
}

pub proof fn lemma_leb_init(o: RView)
    ensures uleb_inv(o, o, 0, 0), sleb_inv(o, o, 0, 0), skip_inv(o, o), o.leb_len(0) >= 1,
{
    lemma_pow2_7(0);
}

/// end of input inside the number: the LEB128 is not terminated within the window
pub proof fn lemma_leb_eof(o: RView, c: RView, k: nat)
    requires within(o, c), c.start == o.start + k, c.len == 0,
        o.leb_len(0) == k + leb_len_in(o.root, (o.start + k) as int, o.end() as int),
    ensures !o.leb_ok(0),
{
}

pub proof fn lemma_uleb_step(o: RView, c: RView, c2: RView, k: nat, acc: nat, byte: u8)
    requires uleb_inv(o, c, k, acc), adv(c, c2, 1), byte == c.at(0),
    ensures ({
        let acc2 = acc + (byte & 0x7f) as nat * pow2(7 * k);
        &&& byte & 0x80 != 0 ==> uleb_inv(o, c2, k + 1, acc2)
        &&& byte & 0x80 == 0 ==> o.leb_ok(0) && o.leb_len(0) == k + 1 && adv(o, c2, k + 1) && o.uleb(0) == acc2
    }),
{
    let p: int = (o.start + k) as int;
    let e = o.end() as int;
    let low = (byte & 0x7f) as nat;
    let w = pow2(7 * k);
    lemma_pow2_7(k);
    assert(byte & 0x7f < 128) by (bit_vector);
    assert(byte == o.root[p]);
    assert(p < e);
    if byte & 0x80 != 0 {
        let rest = uleb_in(o.root, p + 1, e);
        assert(uleb_in(o.root, p, e) == low + 128 * rest);
        assert(acc + w * (low + 128 * rest) == (acc + low * w) + (128 * w) * rest) by (nonlinear_arith);
        assert(acc + low * w < 128 * w) by (nonlinear_arith) requires acc < w, low < 128;
    } else {
        assert(uleb_in(o.root, p, e) == low);
        assert(w * low == low * w) by (nonlinear_arith);
    }
}

/// the 10th byte (shift == 63) of an unsigned LEB128 must be 0x00 or 0x01: anything else either continues (more than
/// 10 bytes) or contributes at least 2 * 2^63
pub proof fn lemma_uleb_reject_10th(o: RView, c: RView, acc: nat, byte: u8)
    requires uleb_inv(o, c, 9, acc), c.len >= 1, byte == c.at(0), byte != 0x00 && byte != 0x01,
    ensures o.uleb(0) > u64::MAX || o.leb_len(0) > 10,
{
    let p: int = (o.start + 9) as int;
    let e = o.end() as int;
    let low = (byte & 0x7f) as nat;
    lemma2_to64_rest();
    assert(byte == o.root[p] && p < e);
    lemma_leb_len_pos(o.root, p + 1, e);
    assert(byte & 0x80 == 0 && byte != 0 && byte != 1 ==> byte & 0x7f >= 2) by (bit_vector);
    if byte & 0x80 == 0 {
        assert(uleb_in(o.root, p, e) == low);
        assert(pow2(63) * low >= pow2(63) * 2) by (nonlinear_arith) requires low >= 2;
    }
}

/// third byte of a u16 LEB128 must be <= 3
pub proof fn lemma_uleb_reject_3rd(o: RView, c: RView, acc: nat, byte: u8)
    requires uleb_inv(o, c, 2, acc), c.len >= 1, byte == c.at(0), byte > 0x03,
    ensures o.uleb(0) > u16::MAX || o.leb_len(0) > 3,
{
    let p: int = (o.start + 2) as int;
    let e = o.end() as int;
    let low = (byte & 0x7f) as nat;
    lemma2_to64();
    assert(byte == o.root[p] && p < e);
    lemma_leb_len_pos(o.root, p + 1, e);
    assert(byte & 0x80 == 0 && byte > 3 ==> byte & 0x7f >= 4) by (bit_vector);
    if byte & 0x80 == 0 {
        assert(uleb_in(o.root, p, e) == low);
        assert(pow2(14) * low >= pow2(14) * 4) by (nonlinear_arith) requires low >= 4;
    }
}

pub proof fn lemma_sleb_step(o: RView, c: RView, c2: RView, k: nat, acc: nat, byte: u8)
    requires sleb_inv(o, c, k, acc), adv(c, c2, 1), byte == c.at(0),
    ensures ({
        let acc2 = acc + (byte & 0x7f) as nat * pow2(7 * k);
        &&& acc2 < pow2(7 * (k + 1))
        &&& byte & 0x80 != 0 ==> sleb_inv(o, c2, k + 1, acc2)
        &&& byte & 0x80 == 0 ==> o.leb_ok(0) && o.leb_len(0) == k + 1 && adv(o, c2, k + 1)
                && o.sleb(0) == (if byte & 0x40 != 0 { acc2 - pow2(7 * (k + 1)) } else { acc2 as int })
    }),
{
    let p: int = (o.start + k) as int;
    let e = o.end() as int;
    let low = (byte & 0x7f) as nat;
    let w = pow2(7 * k);
    lemma_pow2_7(k);
    assert(byte & 0x7f < 128) by (bit_vector);
    assert(byte == o.root[p]);
    assert(p < e);
    assert(acc + low * w < 128 * w) by (nonlinear_arith) requires acc < w, low < 128;
    if byte & 0x80 != 0 {
        let rest = sleb_in(o.root, p + 1, e);
        assert(sleb_in(o.root, p, e) == low + 128 * rest);
        assert(acc + w * (low + 128 * rest) == (acc + low * w) + (128 * w) * rest) by (nonlinear_arith);
    } else if byte & 0x40 != 0 {
        assert(sleb_in(o.root, p, e) == low - 128);
        assert(acc + w * (low - 128) == (acc + low * w) - 128 * w) by (nonlinear_arith);
    } else {
        assert(sleb_in(o.root, p, e) == low);
        assert(w * low == low * w) by (nonlinear_arith);
    }
}

/// the 10th byte (shift == 63) of a signed LEB128 must be 0x00 or 0x7f
pub proof fn lemma_sleb_reject_10th(o: RView, c: RView, acc: nat, byte: u8)
    requires sleb_inv(o, c, 9, acc), c.len >= 1, byte == c.at(0), byte != 0x00 && byte != 0x7f,
    ensures o.sleb(0) > i64::MAX || o.sleb(0) < i64::MIN || o.leb_len(0) > 10,
{
    let p: int = (o.start + 9) as int;
    let e = o.end() as int;
    let low = (byte & 0x7f) as int;
    lemma2_to64_rest();
    assert(byte == o.root[p] && p < e);
    lemma_leb_len_pos(o.root, p + 1, e);
    assert(byte & 0x80 == 0 && byte != 0 && byte != 0x7f ==> (byte & 0x40 == 0 ==> 1 <= byte & 0x7f) && (byte & 0x40 != 0 ==> byte & 0x7f <= 126)) by (bit_vector);
    if byte & 0x80 == 0 {
        if byte & 0x40 != 0 {
            assert(sleb_in(o.root, p, e) == low - 128);
            assert(pow2(63) * (low - 128) <= pow2(63) * (-2)) by (nonlinear_arith) requires low - 128 <= -2;
        } else {
            assert(sleb_in(o.root, p, e) == low);
            assert(pow2(63) * low >= pow2(63) * 1) by (nonlinear_arith) requires low >= 1;
        }
    }
}

pub proof fn lemma_skip_step(o: RView, c: RView, c2: RView, byte: u8)
    requires skip_inv(o, c), adv(c, c2, 1), byte == c.at(0),
    ensures
        byte & 0x80 != 0 ==> skip_inv(o, c2),
        byte & 0x80 == 0 ==> o.leb_ok(0) && adv(o, c2, o.leb_len(0)),
{
    assert(byte == o.root[c.start as int]);
}

/// the accepted 10th bytes of a signed LEB128: 0x00 adds nothing, 0x7f (sign bit set, low bits 127) subtracts 2^63
pub proof fn lemma_sleb_step_10th(o: RView, c: RView, c2: RView, acc: nat, byte: u8)
    requires sleb_inv(o, c, 9, acc), adv(c, c2, 1), byte == c.at(0), byte == 0x00 || byte == 0x7f,
    ensures
        o.leb_ok(0) && o.leb_len(0) == 10 && adv(o, c2, 10) && o.at(9) == byte,
        o.sleb(0) == (if byte == 0 { acc as int } else { acc - pow2(63) }),
{
    lemma_sleb_step(o, c, c2, 9, acc, byte);
    lemma_pow2_7(9);
    let w = pow2(63);
    assert(byte == 0x7fu8 ==> byte & 0x80 == 0 && byte & 0x40 != 0 && byte & 0x7f == 0x7f) by (bit_vector);
    assert(byte == 0u8 ==> byte & 0x80 == 0 && byte & 0x40 == 0 && byte & 0x7f == 0) by (bit_vector);
    assert(byte == o.root[(o.start + 9) as int]);
    if byte == 0 {
        assert(0 * w == 0) by (nonlinear_arith);
    } else {
        assert((acc + 127 * w) - 128 * w == acc - w) by (nonlinear_arith);
    }
}

// ---- encoders (`leb128::write::Leb128::{unsigned, signed}`): closed form of the decoding specs on a byte string whose
// first n-1 bytes carry the continuation bit and whose n-th byte does not
/// sum of the first n 7-bit groups, little end first
pub open spec fn usum(s: Seq<u8>, n: nat) -> nat
    decreases n
{
    if n == 0 { 0 } else { usum(s, (n - 1) as nat) + (s[n - 1] & 0x7f) as nat * pow2((7 * (n - 1)) as nat) }
}

pub open spec fn all_cont(s: Seq<u8>, n: nat) -> bool {
    forall|i: int| 0 <= i < n ==> (#[trigger] s[i]) & 0x80 != 0
}

pub open spec fn lview(s: Seq<u8>, j: nat, n: nat) -> RView {
    RView { root: s, start: j, len: (n - j) as nat, be: false }
}

pub proof fn lemma_usum_ext(s: Seq<u8>, t: Seq<u8>, n: nat)
    requires forall|i: int| 0 <= i < n ==> s[i] == t[i],
    ensures usum(s, n) == usum(t, n),
    decreases n
{
    if n > 0 {
        lemma_usum_ext(s, t, (n - 1) as nat);
    }
}

pub proof fn lemma_uleb_prefix(s: Seq<u8>, n: nat, j: nat)
    requires j < n, all_cont(s, j),
    ensures uleb_inv(lview(s, 0, n), lview(s, j, n), j, usum(s, j)), sleb_inv(lview(s, 0, n), lview(s, j, n), j, usum(s, j)),
    decreases j
{
    let o = lview(s, 0, n);
    if j == 0 {
        lemma_leb_init(o);
    } else {
        let i = (j - 1) as nat;
        lemma_uleb_prefix(s, n, i);
        assert(s[i as int] & 0x80 != 0);
        lemma_uleb_step(o, lview(s, i, n), lview(s, j, n), i, usum(s, i), s[i as int]);
        lemma_sleb_step(o, lview(s, i, n), lview(s, j, n), i, usum(s, i), s[i as int]);
    }
}

/// decoding specs of a well-formed n-byte encoding, in closed form
pub proof fn lemma_leb_encoded(s: Seq<u8>, n: nat)
    requires 1 <= n, all_cont(s, (n - 1) as nat), s[n - 1] & 0x80 == 0,
    ensures
        leb_len_in(s, 0, n as int) == n,
        uleb_in(s, 0, n as int) == usum(s, n),
        sleb_in(s, 0, n as int) == usum(s, n) - (if s[n - 1] & 0x40 != 0 { pow2(7 * n) } else { 0 }),
{
    let j = (n - 1) as nat;
    let o = lview(s, 0, n);
    lemma_uleb_prefix(s, n, j);
    lemma_uleb_step(o, lview(s, j, n), lview(s, n, n), j, usum(s, j), s[j as int]);
    lemma_sleb_step(o, lview(s, j, n), lview(s, n, n), j, usum(s, j), s[j as int]);
}

/// the decoding specs look only at the bytes of the number: a window whose bytes from position d+j on agree with
/// s[j..n) (a terminated LEB128) decodes like s
pub proof fn lemma_leb_transfer(s: Seq<u8>, j: int, n: int, root: Seq<u8>, d: int, e: int)
    requires 0 <= j, d + n <= e, leb_len_in(s, j, n) <= n - j, forall|i: int| j <= i < n ==> root[d + i] == s[i],
    ensures
        leb_len_in(root, d + j, e) == leb_len_in(s, j, n),
        uleb_in(root, d + j, e) == uleb_in(s, j, n),
        sleb_in(root, d + j, e) == sleb_in(s, j, n),
    decreases n - j
{
    if j < n {
        assert(root[d + j] == s[j]);
        if s[j] & 0x80 != 0 {
            lemma_leb_transfer(s, j + 1, n, root, d, e);
        }
    }
}

/// decode o encode == id, spec level.  If the next bytes of a reader view `o` are an encoder output `s` (n bytes, terminated
/// exactly at n, value v as established by the encoder contracts [C09:leb-roundtrip]) then the decoder specs at `o` are (v, n);
/// by [C09:uleb-value]/[C09:uleb-frontier] (resp. sleb) `leb128::read::unsigned` then returns Ok(v) and advances by exactly n.
pub proof fn lemma_roundtrip(o: RView, s: Seq<u8>, n: nat)
    requires n <= o.len, leb_len_in(s, 0, n as int) == n, forall|i: int| 0 <= i < n ==> o.at(i) == s[i],
    ensures o.leb_ok(0), o.leb_len(0) == n, o.uleb(0) == uleb_in(s, 0, n as int), o.sleb(0) == sleb_in(s, 0, n as int),
{
    lemma_leb_transfer(s, 0, n as int, o.root, o.start as int, o.end() as int);
}

// machine arithmetic of the encoder loops
pub proof fn lemma_enc_step_u64(v: u64)
    ensures v as nat == (v & 0x7f) as nat + 128 * ((v >> 7u64) as nat), (v & 0x7f) < 128,
{
    assert(v == (v & 0x7f) + 128 * (v >> 7u64) && (v & 0x7f) < 128) by (bit_vector);
}

pub proof fn lemma_enc_step_i64(v: i64)
    ensures
        v as int == ((v as u8) & 0x7f) as int + 128 * ((v >> 7u64) as int),
        (v >> 6u64) >> 1u64 == v >> 7u64,
        ((v >> 6u64) == 0 || (v >> 6u64) == -1) <==> -64 <= v < 64,
        -64 <= v < 0 ==> ((v as u8) & 0x7f) & 0x40 != 0 && ((v as u8) & 0x7f) as int == v + 128,
        0 <= v < 64 ==> ((v as u8) & 0x7f) & 0x40 == 0 && ((v as u8) & 0x7f) as int == v,
        -64 <= v < 0 ==> v >> 7u64 == -1,
        0 <= v < 64 ==> v >> 7u64 == 0,
{
    assert(-64 <= v < 0 ==> v >> 7u64 == -1) by (bit_vector);
    assert(0 <= v < 64 ==> v >> 7u64 == 0) by (bit_vector);
    assert(v == (((v as u8) & 0x7f) as i64) + 128 * (v >> 7u64)) by (bit_vector);
    assert((v >> 6u64) >> 1u64 == v >> 7u64) by (bit_vector);
    assert(((v >> 6u64) == 0 || (v >> 6u64) == -1) <==> -64 <= v < 64) by (bit_vector);
    assert(-64 <= v < 0 ==> ((v as u8) & 0x7f) & 0x40 != 0 && (((v as u8) & 0x7f) as i64) == v + 128) by (bit_vector);
    assert(0 <= v < 64 ==> ((v as u8) & 0x7f) & 0x40 == 0 && (((v as u8) & 0x7f) as i64) == v) by (bit_vector);
}

/// one encoder iteration that writes `byte` (low 7 bits = low 7 bits of the remaining value `vin`) at index k
pub proof fn lemma_enc_step(s: Seq<u8>, t: Seq<u8>, k: nat, vin: int, vout: int, byte: u8, v0: int)
    requires
        k < s.len(), t == s.update(k as int, byte), all_cont(s, k),
        vin == (byte & 0x7f) as int + 128 * vout,
        usum(s, k) + vin * pow2(7 * k) == v0,
    ensures
        usum(t, k + 1) + vout * pow2(7 * (k + 1)) == v0,
        usum(t, k + 1) == usum(s, k) + (byte & 0x7f) as nat * pow2(7 * k),
        all_cont(t, k),
        byte & 0x80 != 0 ==> all_cont(t, k + 1),
{
    lemma_usum_ext(s, t, k);
    lemma_pow2_7(k);
    let w = pow2(7 * k);
    let low = (byte & 0x7f) as int;
    assert(t[k as int] == byte);
    assert((low + 128 * vout) * w == low * w + vout * (128 * w)) by (nonlinear_arith);
    assert forall|i: int| 0 <= i < k implies (#[trigger] t[i]) & 0x80 != 0 by {
        assert(t[i] == s[i]);
    }
}

/// decode o encode == id over the two contracts.  Hypotheses = what `Leb128::unsigned(v)` guarantees about its output
/// (s = seq(), n = count(): [C09:leb-roundtrip] on the encoder) + "the reader's next n bytes are s"; conclusion = the acceptance
/// condition and the value of the decoder contract ([C09:uleb-frontier], [C09:uleb-value] on `leb128::read::unsigned`), i.e.
/// the decoder returns Ok(v) and advances by exactly n bytes.
pub proof fn theorem_uleb_roundtrip(o: RView, s: Seq<u8>, n: nat, v: u64)
    requires
        1 <= n <= 10, leb_len_in(s, 0, n as int) == n, uleb_in(s, 0, n as int) == v,
        n <= o.len, forall|i: int| 0 <= i < n ==> o.at(i) == s[i],
    ensures
        o.leb_ok(0) && o.leb_len(0) <= 10 && o.uleb(0) <= u64::MAX, // [C09:leb-roundtrip]
        o.uleb(0) == v && o.leb_len(0) == n, // [C09:leb-roundtrip]
{
    lemma_roundtrip(o, s, n);
}

pub proof fn theorem_sleb_roundtrip(o: RView, s: Seq<u8>, n: nat, v: i64)
    requires
        1 <= n <= 10, leb_len_in(s, 0, n as int) == n, sleb_in(s, 0, n as int) == v,
        n <= o.len, forall|i: int| 0 <= i < n ==> o.at(i) == s[i],
    ensures
        o.leb_ok(0) && o.leb_len(0) <= 10 && i64::MIN <= o.sleb(0) <= i64::MAX, // [C09:leb-roundtrip]
        o.sleb(0) == v && o.leb_len(0) == n, // [C09:leb-roundtrip]
{
    lemma_roundtrip(o, s, n);
}
