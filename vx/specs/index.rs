// ---- C17 oracle: the DWARF package index hash table (DWARF 5 section 7.3.5.3) as pure mathematics. Ghost code only.
// A table is two sequences of equal length n (the slot count): `ids` (64-bit signatures, 0 = unused slot) and `rows`
// (32-bit row indices).  Everything below is proved, nothing is assumed.

/// slot counts that are powers of two (the standard: "the number of slots S = 2^k")
#[verifier::opaque]
pub open spec fn is_pow2_u32(s: u32) -> bool {
    s == 0x1 || s == 0x2 || s == 0x4 || s == 0x8 || s == 0x10 || s == 0x20 || s == 0x40 || s == 0x80
    || s == 0x100 || s == 0x200 || s == 0x400 || s == 0x800 || s == 0x1000 || s == 0x2000 || s == 0x4000 || s == 0x8000
    || s == 0x1_0000 || s == 0x2_0000 || s == 0x4_0000 || s == 0x8_0000 || s == 0x10_0000 || s == 0x20_0000 || s == 0x40_0000 || s == 0x80_0000
    || s == 0x100_0000 || s == 0x200_0000 || s == 0x400_0000 || s == 0x800_0000 || s == 0x1000_0000 || s == 0x2000_0000 || s == 0x4000_0000 || s == 0x8000_0000
}

/// primary hash H = S & M(k)
pub open spec fn probe_start(id: u64, n: int) -> int {
    (id as int) % n
}

/// secondary hash H' = ((S >> 32) & M(k)) | 1
pub open spec fn probe_stride(id: u64, n: int) -> int {
    let h = ((id as int) / 0x1_0000_0000) % n;
    if h % 2 == 0 { h + 1 } else { h }
}

/// the slot examined at step k: H, then repeatedly H = (H + H') modulo 2^k
pub open spec fn probe(id: u64, n: int, k: int) -> int
    decreases k
{
    if k <= 0 { probe_start(id, n) } else { (probe(id, n, k - 1) + probe_stride(id, n)) % n }
}

/// the standard's lookup, started at step k, giving up after n probes:
/// "If the entry at index H matches the signature, use that entry. If it is unused (all zeroes), terminate the search:
///  the signature is not present in the table. Let H = (H + H') modulo 2^k. Repeat."
pub open spec fn search(ids: Seq<nat>, rows: Seq<nat>, id: u64, k: int) -> Option<nat>
    decreases ids.len() - k
{
    let n = ids.len() as int;
    if k < 0 || k >= n {
        None
    } else {
        let s = probe(id, n, k);
        if ids[s] == id as nat { Some(rows[s]) } else if ids[s] == 0 { None } else { search(ids, rows, id, k + 1) }
    }
}

/// exhaustive scan: does some slot hold `id`
pub open spec fn present(ids: Seq<nat>, id: nat) -> bool {
    exists|s: int| 0 <= s < ids.len() && ids[s] == id
}

/// no signature is stored twice
pub open spec fn uniq(ids: Seq<nat>) -> bool {
    forall|s1: int, s2: int| 0 <= s1 < ids.len() && 0 <= s2 < ids.len() && ids[s1] == ids[s2] && ids[s1] != 0 ==> s1 == s2
}

/// slot s is reached by the probe sequence of the signature it stores before any unused slot
pub open spec fn reachable(ids: Seq<nat>, s: int) -> bool {
    exists|k: int| 0 <= k < ids.len() && #[trigger] probe(ids[s] as u64, ids.len() as int, k) == s
        && forall|j: int| 0 <= j < k ==> ids[#[trigger] probe(ids[s] as u64, ids.len() as int, j)] != 0
}

/// the open-addressing invariant: what a correct packer produces
pub open spec fn open_addressed(ids: Seq<nat>) -> bool {
    uniq(ids) && forall|s: int| 0 <= s < ids.len() && ids[s] != 0 ==> ids[s] <= u64::MAX && #[trigger] reachable(ids, s)
}

pub proof fn lemma_probe_range(id: u64, n: int, k: int)
    requires n > 0
    ensures 0 <= probe(id, n, k) < n
    decreases k
{
    if k > 0 { lemma_probe_range(id, n, k - 1); }
}

/// any table: a hit is an entry that is present, with that slot's row
pub proof fn lemma_search_sound(ids: Seq<nat>, rows: Seq<nat>, id: u64, k: int)
    requires 0 <= k
    ensures
        search(ids, rows, id, k) matches Some(r) ==> exists|s: int| 0 <= s < ids.len() && ids[s] == id as nat && rows[s] == r, // [C17:search-sound]
    decreases ids.len() - k
{
    let n = ids.len() as int;
    if k < n {
        lemma_probe_range(id, n, k);
        let s = probe(id, n, k);
        if ids[s] != id as nat && ids[s] != 0 {
            lemma_search_sound(ids, rows, id, k + 1);
        }
    }
}

/// open-addressed table: every stored signature is found, with its own row
pub proof fn lemma_search_complete(ids: Seq<nat>, rows: Seq<nat>, s: int)
    requires open_addressed(ids), 0 <= s < ids.len(), ids[s] != 0
    ensures
        search(ids, rows, ids[s] as u64, 0) == Some(rows[s]), // [C17:search-complete]
{
    let n = ids.len() as int;
    let id = ids[s] as u64;
    assert(reachable(ids, s));
    let k = choose|k: int| 0 <= k < n && #[trigger] probe(id, n, k) == s
        && forall|j: int| 0 <= j < k ==> ids[#[trigger] probe(id, n, j)] != 0;
    lemma_search_prefix(ids, rows, id, s, k, 0);
}

proof fn lemma_search_prefix(ids: Seq<nat>, rows: Seq<nat>, id: u64, s: int, k: int, j: int)
    requires
        uniq(ids), 0 <= s < ids.len(), ids[s] == id as nat, id != 0, 0 <= j <= k < ids.len(),
        probe(id, ids.len() as int, k) == s,
        forall|i: int| 0 <= i < k ==> ids[#[trigger] probe(id, ids.len() as int, i)] != 0,
    ensures search(ids, rows, id, j) == Some(rows[s])
    decreases k - j
{
    let n = ids.len() as int;
    lemma_probe_range(id, n, j);
    let p = probe(id, n, j);
    if j < k {
        assert(ids[p] != 0);
        if ids[p] == id as nat {
            assert(p == s);
        } else {
            lemma_search_prefix(ids, rows, id, s, k, j + 1);
        }
    }
}

/// the accelerated lookup agrees with the exhaustive scan on every open-addressed table, for every non-zero key
pub proof fn lemma_search_is_scan(ids: Seq<nat>, rows: Seq<nat>, id: u64)
    requires open_addressed(ids), id != 0
    ensures
        present(ids, id as nat) ==> exists|s: int| 0 <= s < ids.len() && ids[s] == id as nat && search(ids, rows, id, 0) == Some(rows[s]), // [C17:search-is-scan]
        !present(ids, id as nat) ==> search(ids, rows, id, 0) is None, // [C17:search-is-scan]
{
    if present(ids, id as nat) {
        let s = choose|s: int| 0 <= s < ids.len() && ids[s] == id as nat;
        lemma_search_complete(ids, rows, s);
    } else {
        lemma_search_sound(ids, rows, id, 0);
    }
}

// ---- bit-level facts linking the code's mask arithmetic to the standard's "modulo 2^k"
pub proof fn lemma_pow2_mask_test(s: u32)
    ensures s != 0 && s & sub(s, 1) == 0 <==> is_pow2_u32(s)
{
    reveal(is_pow2_u32);
    assert(s != 0 && s & sub(s, 1) == 0 <==> (s == 0x1 || s == 0x2 || s == 0x4 || s == 0x8 || s == 0x10 || s == 0x20 || s == 0x40 || s == 0x80
    || s == 0x100 || s == 0x200 || s == 0x400 || s == 0x800 || s == 0x1000 || s == 0x2000 || s == 0x4000 || s == 0x8000
    || s == 0x1_0000 || s == 0x2_0000 || s == 0x4_0000 || s == 0x8_0000 || s == 0x10_0000 || s == 0x20_0000 || s == 0x40_0000 || s == 0x80_0000
    || s == 0x100_0000 || s == 0x200_0000 || s == 0x400_0000 || s == 0x800_0000 || s == 0x1000_0000 || s == 0x2000_0000 || s == 0x4000_0000 || s == 0x8000_0000)) by (bit_vector);
}

/// x & (2^k - 1) == x mod 2^k
pub proof fn lemma_mask_is_mod(x: u64, s: u32)
    requires is_pow2_u32(s)
    ensures x & ((s - 1) as u64) == x % (s as u64)
{
    lemma_pow2_mask_test(s);
    let s64 = s as u64;
    assert(s64 != 0 && s64 & sub(s64, 1) == 0) by (bit_vector) requires s != 0 && s & sub(s, 1) == 0, s64 == s as u64;
    assert(x & sub(s64, 1) == x % s64) by (bit_vector) requires s64 != 0 && s64 & sub(s64, 1) == 0;
}

/// ((S >> 32) & M) | 1 is the standard's H'
pub proof fn lemma_stride(id: u64, s: u32)
    requires is_pow2_u32(s)
    ensures
        (((id >> 32) & ((s - 1) as u64)) | 1) as int == probe_stride(id, s as int),
        (((id >> 32) & ((s - 1) as u64)) | 1) <= s,
{
    lemma_mask_is_mod(id >> 32, s);
    let h = (id >> 32) & ((s - 1) as u64);
    assert(id >> 32 == id / 0x1_0000_0000) by (bit_vector);
    lemma_pow2_mask_test(s);
    let m = (s - 1) as u64;
    assert((id >> 32) & m <= m) by (bit_vector);
    assert((h | 1) == if h % 2 == 0 { add(h, 1) } else { h }) by (bit_vector);
    assert(h < 0x1_0000_0000);
    assert(sub(s, 1) % 2 == 1 || s == 1) by (bit_vector) requires s != 0 && s & sub(s, 1) == 0;
    assert(h % 2 == 0 ==> h + 1 <= s);
}
