// ---- DWARF 5 line number state machine (sections 6.2.2, 6.2.5; DESIGN.md Appendix A.3) over plain integers.
// Ghost code only. Independent of gimli's types: the read side (C04) relates `LineRow`/`LineProgramHeader`/
// `LineInstruction` to these structs through small adapter spec fns (in crate::read::line); the write side (C13)
// can state `rows(written program) == rows` against the same functions.

/// header parameters the machine depends on (6.2.4)
pub ghost struct LineHdr {
    pub version: int,
    /// size of a target address in bytes
    pub address_size: int,
    pub min_inst_len: int,
    pub max_ops: int,
    pub default_is_stmt: bool,
    pub line_base: int,
    pub line_range: int,
    pub opcode_base: int,
}

/// what the header parser guarantees (gimli rejects 0 for min_inst_len / max_ops / line_range / opcode_base)
pub open spec fn valid_line_hdr(h: LineHdr) -> bool {
    &&& 2 <= h.version <= 5
    &&& (h.address_size == 1 || h.address_size == 2 || h.address_size == 4 || h.address_size == 8)
    &&& 1 <= h.min_inst_len <= 255
    &&& 1 <= h.max_ops <= 255
    &&& -128 <= h.line_base <= 127
    &&& 1 <= h.line_range <= 255
    &&& 1 <= h.opcode_base <= 255
}

/// largest address of the target: 2^(8*address_size) - 1
pub open spec fn addr_max(h: LineHdr) -> int {
    if h.address_size == 1 { 0xff } else if h.address_size == 2 { 0xffff } else if h.address_size == 4 { 0xffff_ffff } else { 0xffff_ffff_ffff_ffff }
}

/// the state machine registers (6.2.2) + gimli's `tombstone` mode flag (documented deviation, see `SetAddress`)
pub ghost struct LineRegs {
    pub address: int,
    pub op_index: int,
    pub file: int,
    pub line: int,
    pub column: int,
    pub is_stmt: bool,
    pub basic_block: bool,
    pub end_sequence: bool,
    pub prologue_end: bool,
    pub epilogue_begin: bool,
    pub isa: int,
    pub discriminator: int,
    /// gimli: the last DW_LNE_set_address was a tombstone; rows and address advances are suppressed until the next one
    pub tombstone: bool,
}

/// "At the beginning of each sequence within a line number program, the state of the registers is" (table 6.4)
pub open spec fn line_initial(h: LineHdr) -> LineRegs {
    LineRegs {
        address: 0, op_index: 0, file: 1, line: 1, column: 0, is_stmt: h.default_is_stmt, basic_block: false,
        end_sequence: false, prologue_end: false, epilogue_begin: false, isa: 0, discriminator: 0, tombstone: false,
    }
}

/// inductive invariant of the registers (all registers are 64-bit unsigned in gimli; op_index < max_ops by 6.2.5.1)
pub open spec fn line_regs_wf(h: LineHdr, r: LineRegs) -> bool {
    &&& 0 <= r.address <= 0xffff_ffff_ffff_ffff
    &&& 0 <= r.op_index < h.max_ops
    &&& 0 <= r.line <= 0xffff_ffff_ffff_ffff
    &&& 0 <= r.file <= 0xffff_ffff_ffff_ffff
    &&& 0 <= r.column <= 0xffff_ffff_ffff_ffff
    &&& 0 <= r.isa <= 0xffff_ffff_ffff_ffff
    &&& 0 <= r.discriminator <= 0xffff_ffff_ffff_ffff
}

/// a decoded instruction (6.2.5.1 - 6.2.5.3); operands are the decoded integer values
pub ghost enum LineOp {
    /// special opcode with the *unadjusted* opcode byte (>= opcode_base)
    Special(int),
    Copy,
    AdvancePc(int),
    AdvanceLine(int),
    SetFile(int),
    SetColumn(int),
    NegateStmt,
    SetBasicBlock,
    ConstAddPc,
    FixedAdvancePc(int),
    SetPrologueEnd,
    SetEpilogueBegin,
    SetIsa(int),
    EndSequence,
    SetAddress(int),
    /// DW_LNE_define_file (version <= 4): appends to the file table, no register effect
    DefineFile,
    SetDiscriminator(int),
    /// unknown standard opcode (operands skipped via standard_opcode_lengths) or unknown extended opcode (skipped by length)
    Unknown,
}

/// result of executing one instruction: the registers *at the point where a row would be appended*
pub ghost struct LineExec {
    /// gimli clause: an address addition exceeded the address size -> Error::AddressOverflow instead of wrapping
    pub err: bool,
    pub regs: LineRegs,
    /// the instruction appends a row to the matrix
    pub emit: bool,
}

/// "adds that value to the line register". gimli clauses: the register is a u64; a negative advance below 0
/// saturates at 0 ("line underflow"), a positive overflow wraps modulo 2^64.
pub open spec fn line_add(line: int, inc: int) -> int {
    if inc < 0 {
        if -inc <= line { line + inc } else { 0 }
    } else {
        (line + inc) % 0x1_0000_0000_0000_0000
    }
}

/// 6.2.5.1 "operation advance":
///   new address  = address + min_inst_len * ((op_index + operation advance) / max_ops)
///   new op_index = (op_index + operation advance) % max_ops
/// gimli clauses: skipped while in tombstone mode; a new address above the address size is an error.
/// (opaque: callers of `apply_operation_advance` reason with the term, only its own proof looks inside)
#[verifier::opaque]
pub open spec fn line_advance(h: LineHdr, r: LineRegs, adv: int) -> LineExec {
    if r.tombstone {
        LineExec { err: false, regs: r, emit: false }
    } else {
        let t = r.op_index + adv;
        let a = r.address + h.min_inst_len * (t / h.max_ops);
        LineExec { err: a > addr_max(h), regs: LineRegs { address: a, op_index: t % h.max_ops, ..r }, emit: false }
    }
}

/// the operation advance fits gimli's 64-bit registers: neither `op_index + adv` nor the address advance exceeds 2^64 - 1.
/// C04's exactness ("rows equal the DWARF state machine") is about well-formed programs; a program whose operation
/// advance overflows 64 bits is not one (gimli computes these two values in `Wrapping<u64>`). The any-input clauses
/// (monotone, <= address size, no panic) do not depend on this predicate. Nothing is computed in tombstone mode.
pub open spec fn line_advance_fits(h: LineHdr, r: LineRegs, adv: int) -> bool {
    r.tombstone || (r.op_index + adv <= 0xffff_ffff_ffff_ffff && h.min_inst_len * ((r.op_index + adv) / h.max_ops) <= 0xffff_ffff_ffff_ffff)
}

/// the instruction's operands fit the 64-bit registers: only DW_LNS_advance_pc carries an unbounded operation advance
/// (special opcodes and DW_LNS_const_add_pc advance by at most 254: `lemma_line_small_advance`)
pub open spec fn line_op_fits(h: LineHdr, r: LineRegs, op: LineOp) -> bool {
    match op {
        LineOp::AdvancePc(u) => line_advance_fits(h, r, u),
        _ => true,
    }
}

/// one instruction, up to (and including) "append a row to the matrix using the current values of the registers"
pub open spec fn line_exec(h: LineHdr, r: LineRegs, op: LineOp) -> LineExec {
    match op {
        // 6.2.5.1: line += line_base + (adjusted % line_range); operation advance = adjusted / line_range; append row
        LineOp::Special(o) => {
            let adj = o - h.opcode_base;
            let r1 = LineRegs { line: line_add(r.line, h.line_base + adj % h.line_range), ..r };
            let e = line_advance(h, r1, adj / h.line_range);
            LineExec { emit: true, ..e }
        },
        // 6.2.5.2
        LineOp::Copy => LineExec { err: false, regs: r, emit: true },
        LineOp::AdvancePc(u) => LineExec { emit: false, ..line_advance(h, r, u) },
        LineOp::AdvanceLine(s) => LineExec { err: false, regs: LineRegs { line: line_add(r.line, s), ..r }, emit: false },
        LineOp::SetFile(u) => LineExec { err: false, regs: LineRegs { file: u, ..r }, emit: false },
        LineOp::SetColumn(u) => LineExec { err: false, regs: LineRegs { column: u, ..r }, emit: false },
        LineOp::NegateStmt => LineExec { err: false, regs: LineRegs { is_stmt: !r.is_stmt, ..r }, emit: false },
        LineOp::SetBasicBlock => LineExec { err: false, regs: LineRegs { basic_block: true, ..r }, emit: false },
        // "advances the address and op_index registers by the increments corresponding to special opcode 255"
        LineOp::ConstAddPc => LineExec { emit: false, ..line_advance(h, r, (255 - h.opcode_base) / h.line_range) },
        // "adds it to the address register and sets op_index to 0 ... does not multiply by minimum_instruction_length"
        LineOp::FixedAdvancePc(x) => {
            if r.tombstone {
                LineExec { err: false, regs: r, emit: false }
            } else {
                LineExec { err: r.address + x > addr_max(h), regs: LineRegs { address: r.address + x, op_index: 0, ..r }, emit: false }
            }
        },
        LineOp::SetPrologueEnd => LineExec { err: false, regs: LineRegs { prologue_end: true, ..r }, emit: false },
        LineOp::SetEpilogueBegin => LineExec { err: false, regs: LineRegs { epilogue_begin: true, ..r }, emit: false },
        LineOp::SetIsa(u) => LineExec { err: false, regs: LineRegs { isa: u, ..r }, emit: false },
        // 6.2.5.3
        LineOp::EndSequence => LineExec { err: false, regs: LineRegs { end_sequence: true, ..r }, emit: true },
        // "sets the address register to the value given by the relocatable address and sets op_index to 0".
        // gimli clause: an address below the current one, or >= -2 (at the address size), is a tombstone left by the
        // linker: registers keep their values and the machine enters tombstone mode.
        LineOp::SetAddress(a) => {
            let tomb = a < r.address || a >= addr_max(h) - 1;
            if tomb {
                LineExec { err: false, regs: LineRegs { tombstone: true, ..r }, emit: false }
            } else {
                LineExec { err: false, regs: LineRegs { address: a, op_index: 0, tombstone: false, ..r }, emit: false }
            }
        },
        LineOp::DefineFile => LineExec { err: false, regs: r, emit: false },
        LineOp::SetDiscriminator(u) => LineExec { err: false, regs: LineRegs { discriminator: u, ..r }, emit: false },
        LineOp::Unknown => LineExec { err: false, regs: r, emit: false },
    }
}

/// what happens to the registers after a row was appended:
/// special opcode steps 4-7 / DW_LNS_copy: basic_block, prologue_end, epilogue_begin := false, discriminator := 0;
/// DW_LNE_end_sequence: "resets the registers to the initial values" (this also leaves tombstone mode)
pub open spec fn line_after_row(h: LineHdr, r: LineRegs) -> LineRegs {
    if r.end_sequence {
        line_initial(h)
    } else {
        LineRegs { discriminator: 0, basic_block: false, prologue_end: false, epilogue_begin: false, ..r }
    }
}

/// one full step of the machine
pub ghost struct LineStep {
    pub err: bool,
    /// the row appended to the matrix by this instruction, if any (gimli clause: none while in tombstone mode)
    pub row: Option<LineRegs>,
    /// registers before the next instruction
    pub next: LineRegs,
}

pub open spec fn line_step(h: LineHdr, r: LineRegs, op: LineOp) -> LineStep {
    let e = line_exec(h, r, op);
    if e.err {
        LineStep { err: true, row: None, next: r }
    } else if e.emit {
        LineStep { err: false, row: if e.regs.tombstone { None } else { Some(e.regs) }, next: line_after_row(h, e.regs) }
    } else {
        LineStep { err: false, row: None, next: e.regs }
    }
}

/// preconditions of an instruction that the decoder establishes
pub open spec fn line_op_wf(h: LineHdr, op: LineOp) -> bool {
    match op {
        LineOp::Special(o) => h.opcode_base <= o <= 255,
        LineOp::AdvancePc(u) => 0 <= u <= 0xffff_ffff_ffff_ffff,
        LineOp::AdvanceLine(s) => -0x8000_0000_0000_0000 <= s <= 0x7fff_ffff_ffff_ffff,
        LineOp::SetFile(u) => 0 <= u <= 0xffff_ffff_ffff_ffff,
        LineOp::SetColumn(u) => 0 <= u <= 0xffff_ffff_ffff_ffff,
        LineOp::FixedAdvancePc(x) => 0 <= x <= 0xffff,
        LineOp::SetIsa(u) => 0 <= u <= 0xffff_ffff_ffff_ffff,
        LineOp::SetAddress(a) => 0 <= a <= 0xffff_ffff_ffff_ffff,
        LineOp::SetDiscriminator(u) => 0 <= u <= 0xffff_ffff_ffff_ffff,
        _ => true,
    }
}

// ---- facts about the machine (proved here once; they are what C04's "for any input" clause rests on)

/// div/mod by max_ops: bounds of the operation-advance quotient and remainder
pub proof fn lemma_line_divmod(t: int, m: int)
    requires 0 <= t, 1 <= m
    ensures 0 <= t / m <= t, 0 <= t % m < m, t == m * (t / m) + t % m, m == 1 ==> (t / m == t && t % m == 0)
{
    vstd::arithmetic::div_mod::lemma_fundamental_div_mod(t, m);
    vstd::arithmetic::div_mod::lemma_mod_bound(t, m);
    vstd::arithmetic::div_mod::lemma_div_pos_is_pos(t, m);
    assert(t / m <= t) by (nonlinear_arith) requires 0 <= t, 1 <= m, t == m * (t / m) + t % m, 0 <= t % m, 0 <= t / m;
    if m == 1 {
        assert(t == 1 * (t / 1) + t % 1);
    }
}

/// special opcode decomposition: 0 <= adj % line_range < line_range, 0 <= adj / line_range <= adj
pub proof fn lemma_line_special(h: LineHdr, o: int)
    requires valid_line_hdr(h), h.opcode_base <= o <= 255
    ensures ({ let adj = o - h.opcode_base; 0 <= adj % h.line_range < h.line_range && 0 <= adj / h.line_range <= 254 })
{
    lemma_line_divmod(o - h.opcode_base, h.line_range);
}

/// an operation advance of at most 255 (special opcode, const_add_pc) always fits the 64-bit registers
pub proof fn lemma_line_small_advance(h: LineHdr, r: LineRegs, adv: int)
    requires valid_line_hdr(h), 0 <= r.op_index < h.max_ops, 0 <= adv <= 255
    ensures line_advance_fits(h, r, adv)
{
    let t = r.op_index + adv;
    lemma_line_divmod(t, h.max_ops);
    assert(h.min_inst_len * (t / h.max_ops) <= 255 * 510) by (nonlinear_arith)
        requires 1 <= h.min_inst_len <= 255, 0 <= t / h.max_ops <= 510;
}

/// C04 "row addresses never decrease within a sequence and never exceed the address size": one instruction
pub proof fn lemma_line_exec_monotone(h: LineHdr, r: LineRegs, op: LineOp)
    requires valid_line_hdr(h), line_regs_wf(h, r), line_op_wf(h, op), r.address <= addr_max(h), !line_exec(h, r, op).err
    ensures r.address <= line_exec(h, r, op).regs.address <= addr_max(h), 0 <= line_exec(h, r, op).regs.op_index < h.max_ops
{
    reveal(line_advance);
    match op {
        LineOp::Special(o) => {
            lemma_line_special(h, o);
            let adj = o - h.opcode_base;
            lemma_line_divmod(r.op_index + adj / h.line_range, h.max_ops);
            assert(h.min_inst_len * ((r.op_index + adj / h.line_range) / h.max_ops) >= 0) by (nonlinear_arith)
                requires h.min_inst_len >= 1, (r.op_index + adj / h.line_range) / h.max_ops >= 0;
        },
        LineOp::AdvancePc(u) => {
            lemma_line_divmod(r.op_index + u, h.max_ops);
            assert(h.min_inst_len * ((r.op_index + u) / h.max_ops) >= 0) by (nonlinear_arith)
                requires h.min_inst_len >= 1, (r.op_index + u) / h.max_ops >= 0;
        },
        LineOp::ConstAddPc => {
            lemma_line_divmod(255 - h.opcode_base, h.line_range);
            let u = (255 - h.opcode_base) / h.line_range;
            lemma_line_divmod(r.op_index + u, h.max_ops);
            assert(h.min_inst_len * ((r.op_index + u) / h.max_ops) >= 0) by (nonlinear_arith)
                requires h.min_inst_len >= 1, (r.op_index + u) / h.max_ops >= 0;
        },
        _ => {},
    }
}
