// ---- spec functions written from the DWARF standard (DESIGN.md Appendix A.1, 5.3); ghost code only
pub open spec fn uint_le(s: Seq<u8>) -> nat
    decreases s.len()
{
    if s.len() == 0 { 0 } else { s[0] as nat + 256 * uint_le(s.skip(1)) }
}

pub open spec fn uint_be(s: Seq<u8>) -> nat
    decreases s.len()
{
    if s.len() == 0 { 0 } else { uint_be(s.drop_last()) * 256 + s.last() as nat }
}

/// value of an n-byte unsigned integer field
pub open spec fn uint_of(s: Seq<u8>, be: bool) -> nat {
    if be { uint_be(s) } else { uint_le(s) }
}

/// two's complement reinterpretation of an unsigned `bits`-bit value
pub open spec fn sext(u: nat, bits: nat) -> int {
    if u >= pow2((bits - 1) as nat) { u as int - pow2(bits) as int } else { u as int }
}

pub open spec fn valid_address_size(size: u8) -> bool {
    size == 1 || size == 2 || size == 4 || size == 8
}

/// all-ones value of an address of `size` bytes (2^(8*size) - 1)
pub open spec fn ones(size: u8) -> u64 {
    if size == 1 { 0xff } else if size == 2 { 0xffff } else if size == 4 { 0xffff_ffff } else { 0xffff_ffff_ffff_ffff }
}

// LEB128 (DWARF 5 section 7.6)
/// index of the terminating byte + 1 (== s.len() + 1 if there is no terminator)
pub open spec fn leb_len(s: Seq<u8>) -> nat
    decreases s.len()
{
    if s.len() == 0 { 1 } else if s[0] & 0x80 == 0 { 1 } else { 1 + leb_len(s.skip(1)) }
}

pub open spec fn leb_terminated(s: Seq<u8>) -> bool {
    leb_len(s) <= s.len()
}

pub open spec fn uleb_value(s: Seq<u8>) -> nat
    decreases s.len()
{
    if s.len() == 0 { 0 } else if s[0] & 0x80 == 0 { (s[0] & 0x7f) as nat } else { (s[0] & 0x7f) as nat + 128 * uleb_value(s.skip(1)) }
}

pub open spec fn sleb_value(s: Seq<u8>) -> int
    decreases s.len()
{
    if s.len() == 0 { 0 }
    else if s[0] & 0x80 == 0 { if s[0] & 0x40 != 0 { (s[0] & 0x7f) as int - 128 } else { (s[0] & 0x7f) as int } }
    else { (s[0] & 0x7f) as int + 128 * sleb_value(s.skip(1)) }
}

/// word size of a DWARF format
pub open spec fn word_size(format: crate::common::Format) -> nat {
    match format { crate::common::Format::Dwarf32 => 4, crate::common::Format::Dwarf64 => 8 }
}

// ---- sequence algebra used by the reader vocabulary (proved, not assumed)
pub broadcast proof fn lemma_skip_skip<A>(s: Seq<A>, a: int, b: int)
    requires 0 <= a, 0 <= b, a + b <= s.len()
    ensures #[trigger] s.skip(a).skip(b) == s.skip(a + b)
{
    assert(s.skip(a).skip(b) =~= s.skip(a + b));
}

pub broadcast proof fn lemma_skip_zero<A>(s: Seq<A>)
    ensures #[trigger] s.skip(0) == s
{
    assert(s.skip(0) =~= s);
}

pub broadcast proof fn lemma_take_full<A>(s: Seq<A>)
    ensures #[trigger] s.take(s.len() as int) == s
{
    assert(s.take(s.len() as int) =~= s);
}

pub broadcast proof fn lemma_skip_take<A>(s: Seq<A>, a: int, n: int)
    requires 0 <= a, 0 <= n, a + n <= s.len()
    ensures #[trigger] s.skip(a).take(n) == s.subrange(a, a + n)
{
    assert(s.skip(a).take(n) =~= s.subrange(a, a + n));
}

pub broadcast proof fn lemma_take_is_subrange<A>(s: Seq<A>, n: int)
    requires 0 <= n <= s.len()
    ensures #[trigger] s.take(n) == s.subrange(0, n)
{
    assert(s.take(n) =~= s.subrange(0, n));
}

pub broadcast proof fn lemma_subrange_subrange<A>(s: Seq<A>, a: int, b: int, c: int, d: int)
    requires 0 <= a <= b <= s.len(), 0 <= c <= d <= b - a
    ensures #[trigger] s.subrange(a, b).subrange(c, d) == s.subrange(a + c, a + d)
{
    assert(s.subrange(a, b).subrange(c, d) =~= s.subrange(a + c, a + d));
}

pub broadcast proof fn lemma_subrange_skip<A>(s: Seq<A>, a: int, b: int, c: int)
    requires 0 <= a <= b <= s.len(), 0 <= c <= b - a
    ensures #[trigger] s.subrange(a, b).skip(c) == s.subrange(a + c, b)
{
    assert(s.subrange(a, b).skip(c) =~= s.subrange(a + c, b));
}

pub broadcast proof fn lemma_skip_is_subrange<A>(s: Seq<A>, a: int)
    requires 0 <= a <= s.len()
    ensures #[trigger] s.skip(a) == s.subrange(a, s.len() as int)
{
    assert(s.skip(a) =~= s.subrange(a, s.len() as int));
}

pub broadcast group group_seq_views {
    lemma_skip_skip,
    lemma_skip_zero,
    lemma_take_full,
    lemma_skip_take,
    lemma_take_is_subrange,
    lemma_subrange_subrange,
    lemma_subrange_skip,
}

// ---- reader views (DESIGN.md 5.1): the ghost state every Reader exposes to contracts
pub ghost struct RView {
    /// the bytes still to be read
    pub bytes: Seq<u8>,
    /// byte order
    pub be: bool,
    /// does this reader expose positions to the verifier (false for EndianSlice: a slice is a pure sequence)
    pub tracks: bool,
    /// identity of the underlying section buffer, and position of bytes[0] inside it
    pub sec: int,
    pub pos: nat,
}

/// `new` is `old` advanced by exactly n bytes
pub open spec fn adv(old: RView, new: RView, n: nat) -> bool {
    old.bytes.len() >= n && new.bytes == old.bytes.skip(n as int) && new.be == old.be && new.tracks == old.tracks
    && new.sec == old.sec && (old.tracks ==> new.pos == old.pos + n)
}
/// `new` is exactly `old`
pub open spec fn unch(old: RView, new: RView) -> bool {
    new.bytes == old.bytes && new.be == old.be && new.tracks == old.tracks && new.sec == old.sec && (old.tracks ==> new.pos == old.pos)
}
/// `new` is `old` advanced by some number of bytes (the universal frame of every parser)
pub open spec fn within(old: RView, new: RView) -> bool {
    new.bytes.len() <= old.bytes.len() && adv(old, new, (old.bytes.len() - new.bytes.len()) as nat)
}
/// `r` is the window [off, off+n) of `parent`
pub open spec fn window(parent: RView, r: RView, off: nat, n: nat) -> bool {
    off + n <= parent.bytes.len() && r.bytes == parent.bytes.subrange(off as int, (off + n) as int) && r.be == parent.be
    && r.tracks == parent.tracks && r.sec == parent.sec && (parent.tracks ==> r.pos == parent.pos + off)
}
/// `new` is a prefix of / truncation of `old`
pub open spec fn trunc(old: RView, new: RView, n: nat) -> bool {
    window(old, new, 0, n)
}
pub proof fn lemma_adv_within(a: RView, b: RView, n: nat)
    requires adv(a, b, n)
    ensures within(a, b), b.bytes.len() + n == a.bytes.len()
{}
pub proof fn lemma_within_refl(a: RView)
    ensures within(a, a), unch(a, a)
{
    broadcast use group_seq_views;
}
pub proof fn lemma_within_trans(a: RView, b: RView, c: RView)
    requires within(a, b), within(b, c)
    ensures within(a, c)
{
    broadcast use group_seq_views;
}
pub proof fn lemma_adv_trans(a: RView, b: RView, c: RView, n1: nat, n2: nat)
    requires adv(a, b, n1), adv(b, c, n2)
    ensures adv(a, c, n1 + n2)
{
    broadcast use group_seq_views;
}
