// ---- spec functions written from the DWARF standard (DESIGN.md Appendix A.1, 5.3); ghost code only
pub open spec fn uint_le(s: Seq<u8>) -> nat
    decreases s.len()
{
    if s.len() == 0 { 0 } else { s[0] as nat + 256 * uint_le(s.skip(1)) }
}

pub open spec fn uint_be(s: Seq<u8>) -> nat
    decreases s.len()
{
    if s.len() == 0 { 0 } else { uint_be(s.drop_last()) * 256 + s.last() as nat }
}

/// value of an n-byte unsigned integer field
pub open spec fn uint_of(s: Seq<u8>, be: bool) -> nat {
    if be { uint_be(s) } else { uint_le(s) }
}

/// two's complement reinterpretation of an unsigned `bits`-bit value
pub open spec fn sext(u: nat, bits: nat) -> int {
    if u >= pow2((bits - 1) as nat) { u as int - pow2(bits) as int } else { u as int }
}

pub open spec fn valid_address_size(size: u8) -> bool {
    size == 1 || size == 2 || size == 4 || size == 8
}

/// all-ones value of an address of `size` bytes (2^(8*size) - 1)
pub open spec fn ones(size: u8) -> u64 {
    if size == 1 { 0xff } else if size == 2 { 0xffff } else if size == 4 { 0xffff_ffff } else { 0xffff_ffff_ffff_ffff }
}

// LEB128 (DWARF 5 section 7.6)
/// index of the terminating byte + 1 (== s.len() + 1 if there is no terminator)
pub open spec fn leb_len(s: Seq<u8>) -> nat
    decreases s.len()
{
    if s.len() == 0 { 1 } else if s[0] & 0x80 == 0 { 1 } else { 1 + leb_len(s.skip(1)) }
}

pub open spec fn leb_terminated(s: Seq<u8>) -> bool {
    leb_len(s) <= s.len()
}

pub open spec fn uleb_value(s: Seq<u8>) -> nat
    decreases s.len()
{
    if s.len() == 0 { 0 } else if s[0] & 0x80 == 0 { (s[0] & 0x7f) as nat } else { (s[0] & 0x7f) as nat + 128 * uleb_value(s.skip(1)) }
}

pub open spec fn sleb_value(s: Seq<u8>) -> int
    decreases s.len()
{
    if s.len() == 0 { 0 }
    else if s[0] & 0x80 == 0 { if s[0] & 0x40 != 0 { (s[0] & 0x7f) as int - 128 } else { (s[0] & 0x7f) as int } }
    else { (s[0] & 0x7f) as int + 128 * sleb_value(s.skip(1)) }
}

/// word size of a DWARF format
pub open spec fn word_size(format: crate::common::Format) -> nat {
    match format { crate::common::Format::Dwarf32 => 4, crate::common::Format::Dwarf64 => 8 }
}

// ---- sequence algebra used by the reader vocabulary (proved, not assumed)
pub broadcast proof fn lemma_skip_skip<A>(s: Seq<A>, a: int, b: int)
    requires 0 <= a, 0 <= b, a + b <= s.len()
    ensures #[trigger] s.skip(a).skip(b) == s.skip(a + b)
{
    assert(s.skip(a).skip(b) =~= s.skip(a + b));
}

pub broadcast proof fn lemma_skip_zero<A>(s: Seq<A>)
    ensures #[trigger] s.skip(0) == s
{
    assert(s.skip(0) =~= s);
}

pub broadcast proof fn lemma_take_full<A>(s: Seq<A>)
    ensures #[trigger] s.take(s.len() as int) == s
{
    assert(s.take(s.len() as int) =~= s);
}

pub broadcast proof fn lemma_skip_take<A>(s: Seq<A>, a: int, n: int)
    requires 0 <= a, 0 <= n, a + n <= s.len()
    ensures #[trigger] s.skip(a).take(n) == s.subrange(a, a + n)
{
    assert(s.skip(a).take(n) =~= s.subrange(a, a + n));
}

pub broadcast proof fn lemma_take_is_subrange<A>(s: Seq<A>, n: int)
    requires 0 <= n <= s.len()
    ensures #[trigger] s.take(n) == s.subrange(0, n)
{
    assert(s.take(n) =~= s.subrange(0, n));
}

pub broadcast proof fn lemma_subrange_subrange<A>(s: Seq<A>, a: int, b: int, c: int, d: int)
    requires 0 <= a <= b <= s.len(), 0 <= c <= d <= b - a
    ensures #[trigger] s.subrange(a, b).subrange(c, d) == s.subrange(a + c, a + d)
{
    assert(s.subrange(a, b).subrange(c, d) =~= s.subrange(a + c, a + d));
}

pub broadcast proof fn lemma_subrange_skip<A>(s: Seq<A>, a: int, b: int, c: int)
    requires 0 <= a <= b <= s.len(), 0 <= c <= b - a
    ensures #[trigger] s.subrange(a, b).skip(c) == s.subrange(a + c, b)
{
    assert(s.subrange(a, b).skip(c) =~= s.subrange(a + c, b));
}

pub broadcast proof fn lemma_skip_is_subrange<A>(s: Seq<A>, a: int)
    requires 0 <= a <= s.len()
    ensures #[trigger] s.skip(a) == s.subrange(a, s.len() as int)
{
    assert(s.skip(a) =~= s.subrange(a, s.len() as int));
}

pub broadcast group group_seq_views {
    lemma_skip_skip,
    lemma_skip_zero,
    lemma_take_full,
    lemma_skip_take,
    lemma_take_is_subrange,
    lemma_subrange_subrange,
    lemma_subrange_skip,
}

// ---- reader views (DESIGN.md 5.1): the ghost state every Reader exposes to contracts.
// A reader is a window [start, start+len) on an immutable section buffer `root`; every contract is integer
// arithmetic over (start, len) plus equality of `root`, so composing parsers needs no sequence algebra.
pub ghost struct RView {
    /// the whole section buffer this reader is a view of
    pub root: Seq<u8>,
    /// position of the next byte to be read, and number of bytes left
    pub start: nat,
    pub len: nat,
    /// byte order
    pub be: bool,
}

impl RView {
    /// the bytes still to be read
    pub open spec fn bytes(self) -> Seq<u8> { self.root.subrange(self.start as int, (self.start + self.len) as int) }
    /// i-th unread byte
    pub open spec fn at(self, i: int) -> u8 { self.root[self.start + i] }
    pub open spec fn end(self) -> nat { self.start + self.len }
    /// unsigned n-byte field at offset p from the read position
    pub open spec fn u(self, p: int, n: int) -> nat { uint_at(self.root, self.start + p, n, self.be) }
    /// signed n-byte field at offset p
    pub open spec fn s(self, p: int, n: int) -> int { sext(self.u(p, n), (8 * n) as nat) }
    /// LEB128 at offset p (never looks past the end of the window)
    pub open spec fn leb_len(self, p: int) -> nat { leb_len_in(self.root, self.start + p, self.end() as int) }
    pub open spec fn leb_ok(self, p: int) -> bool { p + self.leb_len(p) <= self.len }
    pub open spec fn uleb(self, p: int) -> nat { uleb_in(self.root, self.start + p, self.end() as int) }
    pub open spec fn sleb(self, p: int) -> int { sleb_in(self.root, self.start + p, self.end() as int) }
}

/// value of the n-byte unsigned integer stored at root[pos .. pos+n)
pub open spec fn uint_le_at(root: Seq<u8>, pos: int, n: int) -> nat
    decreases n
{
    if n <= 0 { 0 } else { root[pos] as nat + 256 * uint_le_at(root, pos + 1, n - 1) }
}
pub open spec fn uint_be_at(root: Seq<u8>, pos: int, n: int) -> nat
    decreases n
{
    if n <= 0 { 0 } else { uint_be_at(root, pos, n - 1) * 256 + root[pos + n - 1] as nat }
}
pub open spec fn uint_at(root: Seq<u8>, pos: int, n: int, be: bool) -> nat {
    if be { uint_be_at(root, pos, n) } else { uint_le_at(root, pos, n) }
}

pub open spec fn leb_len_in(root: Seq<u8>, pos: int, end: int) -> nat
    decreases end - pos
{
    if pos >= end { 1 } else if root[pos] & 0x80 == 0 { 1 } else { 1 + leb_len_in(root, pos + 1, end) }
}
pub open spec fn uleb_in(root: Seq<u8>, pos: int, end: int) -> nat
    decreases end - pos
{
    if pos >= end { 0 } else if root[pos] & 0x80 == 0 { (root[pos] & 0x7f) as nat } else { (root[pos] & 0x7f) as nat + 128 * uleb_in(root, pos + 1, end) }
}
pub open spec fn sleb_in(root: Seq<u8>, pos: int, end: int) -> int
    decreases end - pos
{
    if pos >= end { 0 }
    else if root[pos] & 0x80 == 0 { if root[pos] & 0x40 != 0 { (root[pos] & 0x7f) as int - 128 } else { (root[pos] & 0x7f) as int } }
    else { (root[pos] & 0x7f) as int + 128 * sleb_in(root, pos + 1, end) }
}

/// `new` is `old` advanced by exactly n bytes
pub open spec fn adv(old: RView, new: RView, n: nat) -> bool {
    n <= old.len && new.root == old.root && new.be == old.be && new.start == old.start + n && new.len == old.len - n
}
/// `new` is exactly `old`
pub open spec fn unch(old: RView, new: RView) -> bool {
    new == old
}
/// `new` is `old` advanced by some number of bytes (the universal frame of every parser)
pub open spec fn within(old: RView, new: RView) -> bool {
    new.root == old.root && new.be == old.be && old.start <= new.start && new.start + new.len == old.start + old.len
}
/// `r` is the window [off, off+n) of `parent`
pub open spec fn window(parent: RView, r: RView, off: nat, n: nat) -> bool {
    off + n <= parent.len && r.root == parent.root && r.be == parent.be && r.start == parent.start + off && r.len == n
}
/// `new` is a prefix of / truncation of `old`
pub open spec fn trunc(old: RView, new: RView, n: nat) -> bool {
    window(old, new, 0, n)
}
/// `r` lies inside `parent`
pub open spec fn inside(parent: RView, r: RView) -> bool {
    r.root == parent.root && r.be == parent.be && parent.start <= r.start && r.start + r.len <= parent.start + parent.len
}
