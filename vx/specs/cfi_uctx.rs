// ---- B-cfi_uctx ghost layer: the abstraction function of RegisterRuleMap (sequence of pairs -> finite map) with its
// algebra, and the sequence lemmas behind UnwindContext::abs().  Ghost code only; every lemma here is PROVED by Verus.

/// `s` mentions register `r`
pub open spec fn rules_has<T: ReaderOffset>(s: Seq<(Register, RegisterRule<T>)>, r: Register) -> bool {
    exists|i: int| 0 <= i < s.len() && (#[trigger] s[i]).0 == r
}

/// `i` is the first position of register `r` in `s`
pub open spec fn rules_first_at<T: ReaderOffset>(s: Seq<(Register, RegisterRule<T>)>, r: Register, i: int) -> bool {
    0 <= i < s.len() && s[i].0 == r && (forall|j: int| 0 <= j < i ==> (#[trigger] s[j]).0 != r)
}

pub open spec fn rules_first<T: ReaderOffset>(s: Seq<(Register, RegisterRule<T>)>, r: Register) -> int {
    choose|i: int| rules_first_at(s, r, i)
}

/// the registers mentioned by a rule vector
pub open spec fn rules_keys<T: ReaderOffset>(s: Seq<(Register, RegisterRule<T>)>) -> Set<Register> {
    s.map_values(|p: (Register, RegisterRule<T>)| p.0).to_set()
}

/// the finite map held by a rule vector: register -> rule of the FIRST pair with that register (what `get` returns)
pub open spec fn rules_map<T: ReaderOffset>(s: Seq<(Register, RegisterRule<T>)>) -> Map<Register, RegisterRule<T>> {
    Map::new(rules_keys(s), |r: Register| s[rules_first(s, r)].1)
}

/// domain and values of rules_map in terms of positions
pub proof fn lemma_rules_dom<T: ReaderOffset>(s: Seq<(Register, RegisterRule<T>)>)
    ensures
        forall|r: Register| #[trigger] rules_map(s).contains_key(r) <==> rules_has(s, r),
        forall|r: Register| rules_has(s, r) ==> #[trigger] rules_map(s)[r] == s[rules_first(s, r)].1,
{
    let ks = s.map_values(|p: (Register, RegisterRule<T>)| p.0);
    assert forall|r: Register| #[trigger] rules_map(s).contains_key(r) <==> rules_has(s, r) by {
        if rules_has(s, r) {
            let i = choose|i: int| 0 <= i < s.len() && (#[trigger] s[i]).0 == r;
            assert(ks[i] == r);
            assert(ks.contains(r));
        }
        if ks.contains(r) {
            let i = choose|i: int| 0 <= i < ks.len() && ks[i] == r;
            assert(s[i].0 == r);
        }
    }
}

/// representation invariant of RegisterRuleMap: no register occurs twice
pub open spec fn rules_nodup<T: ReaderOffset>(s: Seq<(Register, RegisterRule<T>)>) -> bool {
    forall|i: int, j: int| 0 <= i < j < s.len() ==> (#[trigger] s[i]).0 != (#[trigger] s[j]).0
}

pub proof fn lemma_rules_first_unique<T: ReaderOffset>(s: Seq<(Register, RegisterRule<T>)>, r: Register, i: int)
    requires rules_first_at(s, r, i)
    ensures rules_has(s, r), rules_first(s, r) == i
{
    let k = rules_first(s, r);
    assert(rules_first_at(s, r, k));
    if k < i { assert(s[k].0 != r); }
    if i < k { assert(s[i].0 != r); }
}

/// a mentioned register has a first position
pub proof fn lemma_rules_has_first<T: ReaderOffset>(s: Seq<(Register, RegisterRule<T>)>, r: Register)
    requires rules_has(s, r)
    ensures rules_first_at(s, r, rules_first(s, r))
    decreases s.len()
{
    let i = choose|i: int| 0 <= i < s.len() && (#[trigger] s[i]).0 == r;
    lemma_rules_first_below(s, r, i);
}

proof fn lemma_rules_first_below<T: ReaderOffset>(s: Seq<(Register, RegisterRule<T>)>, r: Register, i: int)
    requires 0 <= i < s.len(), s[i].0 == r
    ensures rules_first_at(s, r, rules_first(s, r))
    decreases i
{
    if forall|j: int| 0 <= j < i ==> (#[trigger] s[j]).0 != r {
        assert(rules_first_at(s, r, i));
    } else {
        let j = choose|j: int| 0 <= j < i && (#[trigger] s[j]).0 == r;
        lemma_rules_first_below(s, r, j);
    }
}

/// lookup: the first pair with register r at position i
pub proof fn lemma_rules_get<T: ReaderOffset>(s: Seq<(Register, RegisterRule<T>)>, r: Register, i: int)
    requires rules_first_at(s, r, i)
    ensures rules_map(s).contains_key(r), rules_map(s)[r] == s[i].1
{
    lemma_rules_dom(s);
    lemma_rules_first_unique(s, r, i);
}

pub proof fn lemma_rules_miss<T: ReaderOffset>(s: Seq<(Register, RegisterRule<T>)>, r: Register)
    requires forall|j: int| 0 <= j < s.len() ==> (#[trigger] s[j]).0 != r
    ensures !rules_map(s).contains_key(r)
{
    lemma_rules_dom(s);
    if rules_has(s, r) { let i = choose|i: int| 0 <= i < s.len() && (#[trigger] s[i]).0 == r; assert(s[i].0 != r); }
}

pub proof fn lemma_rules_empty<T: ReaderOffset>(s: Seq<(Register, RegisterRule<T>)>)
    requires s.len() == 0
    ensures rules_map(s) == Map::<Register, RegisterRule<T>>::empty(), rules_nodup(s), rules_len(rules_map(s)) == 0
{
    lemma_rules_dom(s);
    assert forall|r: Register| !rules_map(s).contains_key(r) by {
        if rules_has(s, r) { let i = choose|i: int| 0 <= i < s.len() && (#[trigger] s[i]).0 == r; }
    }
    assert(rules_map(s) =~= Map::<Register, RegisterRule<T>>::empty());
}

pub proof fn lemma_rules_nonempty<T: ReaderOffset>(s: Seq<(Register, RegisterRule<T>)>)
    requires s.len() > 0
    ensures rules_map(s) != Map::<Register, RegisterRule<T>>::empty()
{
    lemma_rules_dom(s);
    assert(rules_has(s, s[0].0));
    assert(rules_map(s).contains_key(s[0].0));
}

pub proof fn lemma_rules_single<T: ReaderOffset>(s: Seq<(Register, RegisterRule<T>)>)
    requires s.len() == 1
    ensures rules_map(s) == Map::<Register, RegisterRule<T>>::empty().insert(s[0].0, s[0].1), rules_nodup(s)
{
    let m = Map::<Register, RegisterRule<T>>::empty().insert(s[0].0, s[0].1);
    lemma_rules_dom(s);
    assert(rules_first_at(s, s[0].0, 0));
    lemma_rules_get(s, s[0].0, 0);
    assert forall|r: Register| rules_map(s).contains_key(r) <==> m.contains_key(r) by {
        if rules_has(s, r) { let i = choose|i: int| 0 <= i < s.len() && (#[trigger] s[i]).0 == r; assert(i == 0); }
    }
    assert(rules_map(s) =~= m);
}

/// replacing the rule of the first pair with register r == Map::insert
pub proof fn lemma_rules_update<T: ReaderOffset>(s: Seq<(Register, RegisterRule<T>)>, r: Register, i: int, v: RegisterRule<T>)
    requires rules_first_at(s, r, i)
    ensures rules_map(s.update(i, (r, v))) == rules_map(s).insert(r, v), rules_nodup(s) ==> rules_nodup(s.update(i, (r, v)))
{
    let s2 = s.update(i, (r, v));
    lemma_rules_dom(s);
    lemma_rules_dom(s2);
    assert forall|x: Register| rules_has(s2, x) <==> (rules_has(s, x) || x == r) by {
        if rules_has(s2, x) { let j = choose|j: int| 0 <= j < s2.len() && (#[trigger] s2[j]).0 == x; assert(s[j].0 == x); }
        if rules_has(s, x) { let j = choose|j: int| 0 <= j < s.len() && (#[trigger] s[j]).0 == x; assert(s2[j].0 == x); }
        if x == r { assert(s2[i].0 == x); }
    }
    assert forall|x: Register| rules_has(s2, x) implies #[trigger] rules_map(s2)[x] == rules_map(s).insert(r, v)[x] by {
        lemma_rules_has_first(s2, x);
        let j = rules_first(s2, x);
        assert(rules_first_at(s, x, j)) by { assert forall|q: int| 0 <= q < j implies (#[trigger] s[q]).0 != x by { assert(s2[q].0 != x); } }
        lemma_rules_first_unique(s, x, j);
        if x == r { lemma_rules_first_unique(s, r, i); }
    }
    assert(rules_map(s2) =~= rules_map(s).insert(r, v));
    if rules_nodup(s) {
        assert forall|a: int, b: int| 0 <= a < b < s2.len() implies (#[trigger] s2[a]).0 != (#[trigger] s2[b]).0 by { assert(s[a].0 != s[b].0); }
    }
}

/// appending a pair with a new register == Map::insert
pub proof fn lemma_rules_push<T: ReaderOffset>(s: Seq<(Register, RegisterRule<T>)>, r: Register, v: RegisterRule<T>)
    requires forall|j: int| 0 <= j < s.len() ==> (#[trigger] s[j]).0 != r
    ensures rules_map(s.push((r, v))) == rules_map(s).insert(r, v), rules_nodup(s) ==> rules_nodup(s.push((r, v)))
{
    let s2 = s.push((r, v));
    lemma_rules_dom(s);
    lemma_rules_dom(s2);
    assert forall|x: Register| rules_has(s2, x) <==> (rules_has(s, x) || x == r) by {
        if rules_has(s2, x) { let j = choose|j: int| 0 <= j < s2.len() && (#[trigger] s2[j]).0 == x; if j < s.len() { assert(s[j].0 == x); } }
        if rules_has(s, x) { let j = choose|j: int| 0 <= j < s.len() && (#[trigger] s[j]).0 == x; assert(s2[j].0 == x); }
        if x == r { assert(s2[s.len() as int].0 == x); }
    }
    assert forall|x: Register| rules_has(s2, x) implies #[trigger] rules_map(s2)[x] == rules_map(s).insert(r, v)[x] by {
        lemma_rules_has_first(s2, x);
        let j = rules_first(s2, x);
        if x == r {
            assert(j == s.len()) by { if j < s.len() { assert(s[j].0 != r); } }
        } else {
            assert(j < s.len());
            assert(rules_first_at(s, x, j)) by { assert forall|q: int| 0 <= q < j implies (#[trigger] s[q]).0 != x by { assert(s2[q].0 != x); } }
            lemma_rules_first_unique(s, x, j);
        }
    }
    assert(rules_map(s2) =~= rules_map(s).insert(r, v));
    if rules_nodup(s) {
        assert forall|a: int, b: int| 0 <= a < b < s2.len() implies (#[trigger] s2[a]).0 != (#[trigger] s2[b]).0 by {
            if b < s.len() { assert(s[a].0 != s[b].0); } else { assert(s[a].0 != r); }
        }
    }
}

/// what ArrayVec::swap_remove leaves behind
pub open spec fn seq_swap_remove<A>(s: Seq<A>, i: int) -> Seq<A> { s.update(i, s.last()).drop_last() }

/// swap_remove of the (only) pair with register r == Map::remove
pub proof fn lemma_rules_swap_remove<T: ReaderOffset>(s: Seq<(Register, RegisterRule<T>)>, i: int)
    requires rules_nodup(s), 0 <= i < s.len()
    ensures rules_map(seq_swap_remove(s, i)) == rules_map(s).remove(s[i].0), rules_nodup(seq_swap_remove(s, i))
{
    let r = s[i].0;
    let s2 = seq_swap_remove(s, i);
    let n = s.len() as int;
    lemma_rules_dom(s);
    lemma_rules_dom(s2);
    // position p of s2 holds the pair at position src(p) of s
    assert forall|p: int| 0 <= p < s2.len() implies #[trigger] s2[p] == s[if p == i { n - 1 } else { p }] by {}
    assert forall|a: int, b: int| 0 <= a < b < s2.len() implies (#[trigger] s2[a]).0 != (#[trigger] s2[b]).0 by {
        let sa = if a == i { n - 1 } else { a };
        let sb = if b == i { n - 1 } else { b };
        assert(s2[a] == s[sa] && s2[b] == s[sb]);
        if sa < sb { assert(s[sa].0 != s[sb].0); } else { assert(s[sb].0 != s[sa].0); }
    }
    assert forall|x: Register| rules_has(s2, x) <==> (rules_has(s, x) && x != r) by {
        if rules_has(s2, x) {
            let p = choose|p: int| 0 <= p < s2.len() && (#[trigger] s2[p]).0 == x;
            let sp = if p == i { n - 1 } else { p };
            assert(s2[p] == s[sp]);
            assert(s[sp].0 == x);
            if sp < i { assert(s[sp].0 != s[i].0); } else if i < sp { assert(s[i].0 != s[sp].0); }
        }
        if rules_has(s, x) && x != r {
            let q = choose|q: int| 0 <= q < s.len() && (#[trigger] s[q]).0 == x;
            if q == n - 1 { assert(s2[i] == s[n - 1]); assert(s2[i].0 == x); } else { assert(s2[q] == s[q]); assert(s2[q].0 == x); }
        }
    }
    assert forall|x: Register| rules_has(s2, x) implies #[trigger] rules_map(s2)[x] == rules_map(s).remove(r)[x] by {
        lemma_rules_has_first(s2, x);
        lemma_rules_has_first(s, x);
        let p = rules_first(s2, x);
        let q = rules_first(s, x);
        let sp = if p == i { n - 1 } else { p };
        assert(s2[p] == s[sp]);
        // nodup: the only position of x in s is q
        if sp < q { assert(s[sp].0 != s[q].0); } else if q < sp { assert(s[q].0 != s[sp].0); }
    }
    assert(rules_map(s2) =~= rules_map(s).remove(r));
}

/// without duplicates the map has as many entries as the vector has pairs (capacity clauses)
pub proof fn lemma_rules_len<T: ReaderOffset>(s: Seq<(Register, RegisterRule<T>)>)
    requires rules_nodup(s)
    ensures rules_len(rules_map(s)) == s.len()
    decreases s.len()
{
    if s.len() == 0 {
        lemma_rules_empty(s);
    } else {
        let p = s.drop_last();
        let l = s.last();
        assert forall|a: int, b: int| 0 <= a < b < p.len() implies (#[trigger] p[a]).0 != (#[trigger] p[b]).0 by { assert(s[a].0 != s[b].0); }
        lemma_rules_len(p);
        assert forall|j: int| 0 <= j < p.len() implies (#[trigger] p[j]).0 != l.0 by { assert(s[j].0 != s[s.len() - 1].0); }
        lemma_rules_push(p, l.0, l.1);
        assert(p.push((l.0, l.1)) =~= s);
        lemma_rules_miss(p, l.0);
        assert(rules_map(s).dom() =~= rules_map(p).dom().insert(l.0));
    }
}

// ---- sequence algebra behind UnwindContext::abs() (map_values / skip / push / drop_last / insert commute); proved, broadcast
pub broadcast proof fn lemma_seq_map_push<A, B>(s: Seq<A>, f: spec_fn(A) -> B, x: A)
    ensures #[trigger] s.push(x).map_values(f) == s.map_values(f).push(f(x))
{
    assert(s.push(x).map_values(f) =~= s.map_values(f).push(f(x)));
}

pub broadcast proof fn lemma_seq_map_drop_last<A, B>(s: Seq<A>, f: spec_fn(A) -> B)
    requires s.len() > 0
    ensures #[trigger] s.drop_last().map_values(f) == s.map_values(f).drop_last()
{
    assert(s.drop_last().map_values(f) =~= s.map_values(f).drop_last());
}

pub broadcast proof fn lemma_seq_map_last<A, B>(s: Seq<A>, f: spec_fn(A) -> B)
    requires s.len() > 0
    ensures #[trigger] s.map_values(f).last() == f(s.last())
{
}

pub broadcast proof fn lemma_seq_map_insert0<A, B>(s: Seq<A>, f: spec_fn(A) -> B, x: A)
    ensures #[trigger] s.insert(0, x).map_values(f) == s.map_values(f).insert(0, f(x))
{
    assert(s.insert(0, x).map_values(f) =~= s.map_values(f).insert(0, f(x)));
}

pub broadcast proof fn lemma_seq_insert0_skip1<B>(q: Seq<B>, b: B)
    ensures #[trigger] q.insert(0, b).skip(1) == q
{
    assert(q.insert(0, b).skip(1) =~= q);
}

pub broadcast proof fn lemma_seq_skip1_push<B>(q: Seq<B>, b: B)
    requires q.len() >= 1
    ensures #[trigger] q.push(b).skip(1) == q.skip(1).push(b)
{
    assert(q.push(b).skip(1) =~= q.skip(1).push(b));
}

pub broadcast proof fn lemma_seq_skip1_drop_last<B>(q: Seq<B>)
    requires q.len() >= 2
    ensures #[trigger] q.drop_last().skip(1) == q.skip(1).drop_last()
{
    assert(q.drop_last().skip(1) =~= q.skip(1).drop_last());
}

pub broadcast proof fn lemma_seq_skip1_last<B>(q: Seq<B>)
    requires q.len() >= 2
    ensures #[trigger] q.skip(1).last() == q.last()
{
}

pub broadcast proof fn lemma_seq_map_update<A, B>(s: Seq<A>, f: spec_fn(A) -> B, i: int, x: A)
    requires 0 <= i < s.len()
    ensures #[trigger] s.update(i, x).map_values(f) == s.map_values(f).update(i, f(x))
{
    assert(s.update(i, x).map_values(f) =~= s.map_values(f).update(i, f(x)));
}

/// what `<[T]>::last_mut` leaves behind, in push/drop_last form
pub broadcast proof fn lemma_seq_update_last<B>(q: Seq<B>, i: int, b: B)
    requires q.len() > 0, i == q.len() - 1
    ensures #[trigger] q.update(i, b) == q.drop_last().push(b)
{
    assert(q.update(i, b) =~= q.drop_last().push(b));
}

pub broadcast proof fn lemma_seq_skip1_update<B>(q: Seq<B>, i: int, b: B)
    requires 1 <= i < q.len()
    ensures #[trigger] q.update(i, b).skip(1) == q.skip(1).update(i - 1, b)
{
    assert(q.update(i, b).skip(1) =~= q.skip(1).update(i - 1, b));
}

pub broadcast group group_seq_abs {
    lemma_seq_map_update, lemma_seq_update_last, lemma_seq_skip1_update,
    lemma_seq_map_push, lemma_seq_map_drop_last, lemma_seq_map_last, lemma_seq_map_insert0, lemma_seq_insert0_skip1,
    lemma_seq_skip1_push, lemma_seq_skip1_drop_last, lemma_seq_skip1_last,
}
