
// ---- ghost specs for batch `filter_reserve` (property C19: reservation of the reachable entries, per unit)   module crate::fspec
// No trusted items in this file: spec definitions and proved lemmas only.

pub type RUnit<R> = crate::read::Unit<R, usize>;

/// `k` is the section offset of an entry of the unit with header `h`
/// (what `UnitSectionOffset::to_unit_offset` decides: at or after the unit's start and in bounds of its entries)
pub open spec fn in_unit<R: Reader<Offset = usize>>(h: Hdr<R>, k: K) -> bool {
    k.0 >= h.spec_offset().0 && h.in_bounds_spec(UnitOffset((k.0 - h.spec_offset().0) as usize))
}
/// section offset of the unit's root entry
pub open spec fn root_key<R: Reader<Offset = usize>>(h: Hdr<R>) -> K { uso_unit(h, h.root_spec()) }
/// W-ROOT (first half): the root entry exists (the entries buffer is not empty) and its section offset is representable
pub open spec fn root_ok<R: Reader<Offset = usize>>(h: Hdr<R>) -> bool {
    h.in_bounds_spec(h.root_spec()) && h.spec_offset().0 + h.root_spec().0 <= usize::MAX
}
/// W-ORDER: the units are in section order and do not overlap
pub open spec fn units_ordered<R: Reader<Offset = usize>>(us: Seq<RUnit<R>>) -> bool {
    forall|i: int, j: int, a: K, b: K| #![trigger in_unit(us[i].header, a), in_unit(us[j].header, b)]
        0 <= i < j < us.len() && in_unit(us[i].header, a) && in_unit(us[j].header, b) ==> a.0 < b.0
}
/// `k` lies in one of the units us[lo..]
pub open spec fn in_some_unit<R: Reader<Offset = usize>>(us: Seq<RUnit<R>>, lo: int, k: K) -> bool {
    exists|i: int| lo <= i < us.len() && #[trigger] in_unit(us[i].header, k)
}
/// what new_with_filter assumes about the filter state handed to it (W-ORDER, W-REG, W-ROOT, W-CAP)
pub open spec fn section_wf<R: Reader<Offset = usize>>(us: Seq<RUnit<R>>, g: G) -> bool {
    &&& units_ordered(us)
    &&& forall|k: K| #[trigger] g.contains_key(k) ==> in_some_unit(us, 0, k)
    &&& roots_wf(us, g)
    &&& g.dom().len() < usize::MAX
}
/// W-ROOT: every unit has a root entry, and no root is a registered entry of the graph
pub open spec fn roots_wf<R: Reader<Offset = usize>>(us: Seq<RUnit<R>>, g: G) -> bool {
    forall|i: int| 0 <= i < us.len() ==> root_ok(#[trigger] us[i].header) && !g.contains_key(root_key(us[i].header))
}
/// W-ORDER, instantiated
pub proof fn lemma_units_apart<R: Reader<Offset = usize>>(us: Seq<RUnit<R>>, i: int, j: int, a: K, b: K)
    requires units_ordered(us), 0 <= i < j < us.len(), in_unit(us[i].header, a), in_unit(us[j].header, b),
    ensures a.0 < b.0,
{}
/// [C19:reserve-reachable-only] cuts[i]..cuts[i+1] is EXACTLY the set of positions of r whose offset lies in unit i
pub open spec fn partition_ok<R: Reader<Offset = usize>>(us: Seq<RUnit<R>>, r: Seq<K>, cuts: Seq<int>, k: int) -> bool {
    &&& cuts.len() == k + 1 && cuts[0] == 0
    &&& forall|i: int| 0 <= i < k ==> #[trigger] cuts[i] <= cuts[i + 1]
    &&& forall|i: int, j: int| #![trigger cuts[i], r[j]] 0 <= i < k && 0 <= j < r.len() ==> ((cuts[i] <= j < cuts[i + 1]) <==> in_unit(us[i].header, r[j]))
}
/// the result of get_reachable (batch filter: [C19:reach-*])
pub open spec fn is_reachable_list(g: G, req: Seq<K>, r: Seq<K>) -> bool {
    reach_valid(g, r) && reach_required(g, req, r) && reach_closed(g, r) && reach_minimal(g, req, r) && sorted_by_offset(r) && r.no_duplicates()
}

/// a duplicate-free list of registered entries is no longer than the graph
pub proof fn lemma_reach_len(g: G, r: Seq<K>)
    requires reach_valid(g, r), r.no_duplicates(),
    ensures r.len() <= g.dom().len(),
{
    r.unique_seq_to_set();
    assert(r.to_set().subset_of(g.dom())) by {
        assert forall|k: K| r.to_set().contains(k) implies g.dom().contains(k) by {
            let i = choose|i: int| 0 <= i < r.len() && r[i] == k;
            assert(g.contains_key(r[i]));
        }
    }
    vstd::set_lib::lemma_len_subset(r.to_set(), g.dom());
}
/// the root offset of a unit lies in that unit
pub proof fn lemma_root_in_unit<R: Reader<Offset = usize>>(h: Hdr<R>)
    requires root_ok(h),
    ensures in_unit(h, root_key(h)),
{
    assert(UnitOffset((root_key(h).0 - h.spec_offset().0) as usize) == h.root_spec());
}

// ---- the partitioning loop of new_with_filter
/// `k` lies in one of the units us[..hi]
pub open spec fn in_earlier_unit<R: Reader<Offset = usize>>(us: Seq<RUnit<R>>, hi: int, k: K) -> bool {
    exists|i: int| 0 <= i < hi && #[trigger] in_unit(us[i].header, k)
}
/// bookkeeping at unit k with e offsets consumed: the consumed offsets lie in earlier units, the others in unit k or later
pub open spec fn split_inv<R: Reader<Offset = usize>>(us: Seq<RUnit<R>>, r: Seq<K>, k: int, e: int) -> bool {
    &&& 0 <= k <= us.len() && 0 <= e <= r.len()
    &&& forall|j: int| 0 <= j < e ==> in_earlier_unit(us, k, #[trigger] r[j])
    &&& forall|j: int| e <= j < r.len() ==> in_some_unit(us, k, #[trigger] r[j])
}
/// unit k takes the maximal run r[s..e] of offsets inside it: the partition and the bookkeeping advance to unit k + 1
pub proof fn lemma_partition_step<R: Reader<Offset = usize>>(us: Seq<RUnit<R>>, r: Seq<K>, cuts: Seq<int>, k: int, s: int, e: int)
    requires
        units_ordered(us), sorted_by_offset(r), 0 <= k < us.len(),
        partition_ok(us, r, cuts, k), cuts[k] == s, split_inv(us, r, k, s), s <= e <= r.len(),
        forall|j: int| s <= j < e ==> in_unit(us[k].header, #[trigger] r[j]),
        e == r.len() || !in_unit(us[k].header, r[e]),
    ensures
        partition_ok(us, r, cuts.push(e), k + 1), split_inv(us, r, k + 1, e),
{
    let c2 = cuts.push(e);
    assert forall|j: int| e <= j < r.len() implies in_some_unit(us, k + 1, #[trigger] r[j]) by {
        assert(in_some_unit(us, k, r[j]));
        let i = choose|i: int| k <= i < us.len() && #[trigger] in_unit(us[i].header, r[j]);
        if i == k {
            assert(!in_unit(us[k].header, r[e]));
            assert(in_some_unit(us, k, r[e]));
            let i2 = choose|i2: int| k <= i2 < us.len() && #[trigger] in_unit(us[i2].header, r[e]);
            assert(in_unit(us[k].header, r[j]) && in_unit(us[i2].header, r[e]));      // W-ORDER: r[j].0 < r[e].0
            assert(r[e].0 <= r[j].0);                                                   // sorted
            assert(false);
        }
        assert(in_unit(us[i].header, r[j]));
    }
    assert forall|j: int| 0 <= j < e implies in_earlier_unit(us, k + 1, #[trigger] r[j]) by {
        if j < s {
            assert(in_earlier_unit(us, k, r[j]));
            let i = choose|i: int| 0 <= i < k && #[trigger] in_unit(us[i].header, r[j]);
            assert(in_unit(us[i].header, r[j]));
        } else {
            assert(in_unit(us[k].header, r[j]));
        }
    }
    assert forall|i: int, j: int| #![trigger c2[i], r[j]] 0 <= i < k + 1 && 0 <= j < r.len() implies ((c2[i] <= j < c2[i + 1]) <==> in_unit(us[i].header, r[j])) by {
        if i < k {
            assert(c2[i] == cuts[i] && c2[i + 1] == cuts[i + 1]);
        } else {
            assert(c2[k] == s && c2[k + 1] == e);
            if in_unit(us[k].header, r[j]) {
                if j < s {
                    assert(in_earlier_unit(us, k, r[j]));
                    let i0 = choose|i0: int| 0 <= i0 < k && #[trigger] in_unit(us[i0].header, r[j]);
                    assert(in_unit(us[i0].header, r[j]) && in_unit(us[k].header, r[j]));
                    assert(false);
                }
                if j >= e {
                    assert(in_some_unit(us, k + 1, r[j]));
                    let i1 = choose|i1: int| k + 1 <= i1 < us.len() && #[trigger] in_unit(us[i1].header, r[j]);
                    assert(in_unit(us[k].header, r[j]) && in_unit(us[i1].header, r[j]));
                    assert(false);
                }
            }
        }
    }
    assert forall|i: int| 0 <= i < k + 1 implies #[trigger] c2[i] <= c2[i + 1] by {
        if i < k { assert(c2[i] == cuts[i] && c2[i + 1] == cuts[i + 1]); assert(cuts[i] <= cuts[i + 1]); }
    }
}
/// after the last unit nothing is left over (the debug_assert_eq!(end, offsets.len()) of new_with_filter)
pub proof fn lemma_partition_end<R: Reader<Offset = usize>>(us: Seq<RUnit<R>>, r: Seq<K>, e: int)
    requires split_inv(us, r, us.len() as int, e),
    ensures e == r.len(),
{
    if e < r.len() { assert(in_some_unit(us, us.len() as int, r[e])); }
}
