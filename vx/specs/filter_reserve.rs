
// ---- ghost specs for batch `filter_reserve` (property C19: reservation of the reachable entries, per unit)   module crate::fspec
// No trusted items in this file: spec definitions and proved lemmas only.

pub type RUnit<R> = crate::read::Unit<R, usize>;

/// `k` is the section offset of an entry of the unit with header `h`
/// (what `UnitSectionOffset::to_unit_offset` decides: at or after the unit's start and in bounds of its entries)
pub open spec fn in_unit<R: Reader<Offset = usize>>(h: Hdr<R>, k: K) -> bool {
    k.0 >= h.spec_offset().0 && h.in_bounds_spec(UnitOffset((k.0 - h.spec_offset().0) as usize))
}
/// section offset of the unit's root entry
pub open spec fn root_key<R: Reader<Offset = usize>>(h: Hdr<R>) -> K { uso_unit(h, h.root_spec()) }
/// W-ROOT (first half): the root entry exists (the entries buffer is not empty) and its section offset is representable
pub open spec fn root_ok<R: Reader<Offset = usize>>(h: Hdr<R>) -> bool {
    h.in_bounds_spec(h.root_spec()) && h.spec_offset().0 + h.root_spec().0 <= usize::MAX
}
/// W-ORDER: the units are in section order and do not overlap
pub open spec fn units_ordered<R: Reader<Offset = usize>>(us: Seq<RUnit<R>>) -> bool {
    forall|i: int, j: int, a: K, b: K| #![trigger in_unit(us[i].header, a), in_unit(us[j].header, b)]
        0 <= i < j < us.len() && in_unit(us[i].header, a) && in_unit(us[j].header, b) ==> a.0 < b.0
}
/// `k` lies in one of the units us[lo..]
pub open spec fn in_some_unit<R: Reader<Offset = usize>>(us: Seq<RUnit<R>>, lo: int, k: K) -> bool {
    exists|i: int| lo <= i < us.len() && #[trigger] in_unit(us[i].header, k)
}
/// what new_with_filter assumes about the filter state handed to it (W-ORDER, W-REG, W-ROOT, W-CAP)
pub open spec fn section_wf<R: Reader<Offset = usize>>(us: Seq<RUnit<R>>, g: G) -> bool {
    &&& units_ordered(us)
    &&& forall|k: K| #[trigger] g.contains_key(k) ==> in_some_unit(us, 0, k)
    &&& forall|i: int| 0 <= i < us.len() ==> root_ok(#[trigger] us[i].header) && !g.contains_key(root_key(us[i].header))
    &&& g.dom().len() < usize::MAX
}
/// [C19:reserve-reachable-only] cuts[i]..cuts[i+1] is EXACTLY the set of positions of r whose offset lies in unit i
pub open spec fn partition_ok<R: Reader<Offset = usize>>(us: Seq<RUnit<R>>, r: Seq<K>, cuts: Seq<int>, k: int) -> bool {
    &&& cuts.len() == k + 1 && cuts[0] == 0
    &&& forall|i: int| 0 <= i < k ==> #[trigger] cuts[i] <= cuts[i + 1]
    &&& forall|i: int, j: int| #![trigger cuts[i], r[j]] 0 <= i < k && 0 <= j < r.len() ==> ((cuts[i] <= j < cuts[i + 1]) <==> in_unit(us[i].header, r[j]))
}
/// the result of get_reachable (batch filter: [C19:reach-*])
pub open spec fn is_reachable_list(g: G, req: Seq<K>, r: Seq<K>) -> bool {
    reach_valid(g, r) && reach_required(g, req, r) && reach_closed(g, r) && reach_minimal(g, req, r) && sorted_by_offset(r) && r.no_duplicates()
}

/// a duplicate-free list of registered entries is no longer than the graph
pub proof fn lemma_reach_len(g: G, r: Seq<K>)
    requires reach_valid(g, r), r.no_duplicates(),
    ensures r.len() <= g.dom().len(),
{
    r.unique_seq_to_set();
    assert(r.to_set().subset_of(g.dom())) by {
        assert forall|k: K| r.to_set().contains(k) implies g.dom().contains(k) by {
            let i = choose|i: int| 0 <= i < r.len() && r[i] == k;
            assert(g.contains_key(r[i]));
        }
    }
    vstd::set_lib::lemma_len_subset(r.to_set(), g.dom());
}
/// the root offset of a unit lies in that unit
pub proof fn lemma_root_in_unit<R: Reader<Offset = usize>>(h: Hdr<R>)
    requires root_ok(h),
    ensures in_unit(h, root_key(h)),
{
    assert(UnitOffset((root_key(h).0 - h.spec_offset().0) as usize) == h.root_spec());
}
