// ---- ghost specs for batch `conv` (property C12).  Written from the DWARF 5 standard (6.4.2 call frame instructions,
// 2.17.3 / 2.6.2 range and location lists, 2.5 expressions, 6.2 line number state machine) and from the C12 statement:
// "the converted value has the same meaning as the value read, or the conversion fails".  All arithmetic is on `int`,
// so an exec-side narrowing cast or wrapping product that loses information makes the clause false.

use crate::common::{Encoding, Register};
use crate::read::cfi as rcfi;
use crate::write::cfi as wcfi;
use crate::write::Address;

// ------------------------------------------------------------------------------------------------------------ CFI
/// What one call frame instruction does to the row under construction, in *unfactored* units (DWARF 5 6.4.2).
/// Expression-valued rules carry no payload here; the expression is related separately (`expr-*` clauses).
pub enum CfiSem {
    SetLoc,
    AdvanceLoc { bytes: int },
    DefCfa { reg: int, off: int },
    DefCfaRegister { reg: int },
    DefCfaOffset { off: int },
    DefCfaExpression,
    Undefined { reg: int },
    SameValue { reg: int },
    Offset { reg: int, off: int },
    ValOffset { reg: int, off: int },
    Register { dst: int, src: int },
    Expression { reg: int },
    ValExpression { reg: int },
    Restore { reg: int },
    RememberState,
    RestoreState,
    ArgsSize { size: int },
    NegateRaState,
    Nop,
}

/// DWARF 5 6.4.2.1-6.4.2.5: the meaning of a decoded instruction under the CIE's alignment factors
/// (`caf` = code_alignment_factor, `daf` = data_alignment_factor).
pub open spec fn read_cfi_sem(i: rcfi::CallFrameInstruction<usize>, caf: int, daf: int) -> CfiSem {
    match i {
        rcfi::CallFrameInstruction::SetLoc { address } => CfiSem::SetLoc,
        rcfi::CallFrameInstruction::AdvanceLoc { delta } => CfiSem::AdvanceLoc { bytes: delta as int * caf },
        rcfi::CallFrameInstruction::DefCfa { register, offset } => CfiSem::DefCfa { reg: register.0 as int, off: offset as int },
        rcfi::CallFrameInstruction::DefCfaSf { register, factored_offset } => CfiSem::DefCfa { reg: register.0 as int, off: factored_offset as int * daf },
        rcfi::CallFrameInstruction::DefCfaRegister { register } => CfiSem::DefCfaRegister { reg: register.0 as int },
        rcfi::CallFrameInstruction::DefCfaOffset { offset } => CfiSem::DefCfaOffset { off: offset as int },
        rcfi::CallFrameInstruction::DefCfaOffsetSf { factored_offset } => CfiSem::DefCfaOffset { off: factored_offset as int * daf },
        rcfi::CallFrameInstruction::DefCfaExpression { expression } => CfiSem::DefCfaExpression,
        rcfi::CallFrameInstruction::Undefined { register } => CfiSem::Undefined { reg: register.0 as int },
        rcfi::CallFrameInstruction::SameValue { register } => CfiSem::SameValue { reg: register.0 as int },
        rcfi::CallFrameInstruction::Offset { register, factored_offset } => CfiSem::Offset { reg: register.0 as int, off: factored_offset as int * daf },
        rcfi::CallFrameInstruction::OffsetExtendedSf { register, factored_offset } => CfiSem::Offset { reg: register.0 as int, off: factored_offset as int * daf },
        rcfi::CallFrameInstruction::ValOffset { register, factored_offset } => CfiSem::ValOffset { reg: register.0 as int, off: factored_offset as int * daf },
        rcfi::CallFrameInstruction::ValOffsetSf { register, factored_offset } => CfiSem::ValOffset { reg: register.0 as int, off: factored_offset as int * daf },
        rcfi::CallFrameInstruction::Register { dest_register, src_register } => CfiSem::Register { dst: dest_register.0 as int, src: src_register.0 as int },
        rcfi::CallFrameInstruction::Expression { register, expression } => CfiSem::Expression { reg: register.0 as int },
        rcfi::CallFrameInstruction::ValExpression { register, expression } => CfiSem::ValExpression { reg: register.0 as int },
        rcfi::CallFrameInstruction::Restore { register } => CfiSem::Restore { reg: register.0 as int },
        rcfi::CallFrameInstruction::RememberState => CfiSem::RememberState,
        rcfi::CallFrameInstruction::RestoreState => CfiSem::RestoreState,
        rcfi::CallFrameInstruction::ArgsSize { size } => CfiSem::ArgsSize { size: size as int },
        rcfi::CallFrameInstruction::NegateRaState => CfiSem::NegateRaState,
        rcfi::CallFrameInstruction::Nop => CfiSem::Nop,
    }
}

/// The meaning of a write-side instruction (gimli's writable form stores unfactored offsets; the writer re-factors them
/// with the write-side CIE's factors and rejects inexact divisions - that half is property C14).
pub open spec fn write_cfi_sem(w: wcfi::CallFrameInstruction) -> CfiSem {
    match w {
        wcfi::CallFrameInstruction::Cfa(r, o) => CfiSem::DefCfa { reg: r.0 as int, off: o as int },
        wcfi::CallFrameInstruction::CfaRegister(r) => CfiSem::DefCfaRegister { reg: r.0 as int },
        wcfi::CallFrameInstruction::CfaOffset(o) => CfiSem::DefCfaOffset { off: o as int },
        wcfi::CallFrameInstruction::CfaExpression(e) => CfiSem::DefCfaExpression,
        wcfi::CallFrameInstruction::Restore(r) => CfiSem::Restore { reg: r.0 as int },
        wcfi::CallFrameInstruction::Undefined(r) => CfiSem::Undefined { reg: r.0 as int },
        wcfi::CallFrameInstruction::SameValue(r) => CfiSem::SameValue { reg: r.0 as int },
        wcfi::CallFrameInstruction::Offset(r, o) => CfiSem::Offset { reg: r.0 as int, off: o as int },
        wcfi::CallFrameInstruction::ValOffset(r, o) => CfiSem::ValOffset { reg: r.0 as int, off: o as int },
        wcfi::CallFrameInstruction::Register(a, b) => CfiSem::Register { dst: a.0 as int, src: b.0 as int },
        wcfi::CallFrameInstruction::Expression(r, e) => CfiSem::Expression { reg: r.0 as int },
        wcfi::CallFrameInstruction::ValExpression(r, e) => CfiSem::ValExpression { reg: r.0 as int },
        wcfi::CallFrameInstruction::RememberState => CfiSem::RememberState,
        wcfi::CallFrameInstruction::RestoreState => CfiSem::RestoreState,
        wcfi::CallFrameInstruction::ArgsSize(s) => CfiSem::ArgsSize { size: s as int },
        wcfi::CallFrameInstruction::NegateRaState => CfiSem::NegateRaState,
    }
}

/// the expression carried by a write-side instruction, if any
pub open spec fn write_cfi_expr(w: wcfi::CallFrameInstruction) -> Option<crate::write::op::Expression> {
    match w {
        wcfi::CallFrameInstruction::CfaExpression(e) => Some(e),
        wcfi::CallFrameInstruction::Expression(r, e) => Some(e),
        wcfi::CallFrameInstruction::ValExpression(r, e) => Some(e),
        _ => None,
    }
}

/// the (offset, length) of the expression block a read-side instruction refers to, if any
pub open spec fn read_cfi_expr(i: rcfi::CallFrameInstruction<usize>) -> Option<rcfi::UnwindExpression<usize>> {
    match i {
        rcfi::CallFrameInstruction::DefCfaExpression { expression } => Some(expression),
        rcfi::CallFrameInstruction::Expression { register, expression } => Some(expression),
        rcfi::CallFrameInstruction::ValExpression { register, expression } => Some(expression),
        _ => None,
    }
}

/// the address function the caller supplies: `a` converts to `out`
pub open spec fn conv_addr<CA: Fn(u64) -> Option<Address>>(ca: &CA, a: u64, out: Address) -> bool {
    call_ensures(ca, (a,), Some(out))
}

/// Relation "expression bytes `from` (a reader window) under `enc` were converted to `out`".  Established by
/// `write::op::convert::Expression::from`; opaque to the CFI / list layers, which only pass it through.
pub uninterp spec fn expr_conv(from: crate::vspec::RView, enc: Encoding, has_unit: bool, out: crate::write::op::Expression) -> bool;

// ---- instruction sequences (CIE initial instructions / FDE instructions)
/// code location (byte offset from the FDE's initial address) reached after the instructions `src`:
/// the sum of all advance_loc deltas times the code alignment factor (6.4.2.1)
pub open spec fn cfi_loc(src: Seq<rcfi::CallFrameInstruction<usize>>, caf: int) -> int
    decreases src.len()
{
    if src.len() == 0 { 0 } else {
        cfi_loc(src.drop_last(), caf) + (match src.last() { rcfi::CallFrameInstruction::AdvanceLoc { delta } => delta as int * caf, _ => 0 })
    }
}

/// the meaning of an instruction sequence: every rule-changing instruction with the location it applies at
/// (advance_loc and nop contribute only through the location)
pub open spec fn cfi_rows(src: Seq<rcfi::CallFrameInstruction<usize>>, caf: int, daf: int) -> Seq<(int, CfiSem)>
    decreases src.len()
{
    if src.len() == 0 { Seq::empty() } else {
        let pre = src.drop_last();
        let i = src.last();
        if i is AdvanceLoc || i is Nop { cfi_rows(pre, caf, daf) } else { cfi_rows(pre, caf, daf).push((cfi_loc(pre, caf), read_cfi_sem(i, caf, daf))) }
    }
}

pub open spec fn wfde_rows(v: Seq<(u32, wcfi::CallFrameInstruction)>) -> Seq<(int, CfiSem)> {
    Seq::new(v.len(), |k: int| (v[k].0 as int, write_cfi_sem(v[k].1)))
}

pub open spec fn wcie_sems(v: Seq<wcfi::CallFrameInstruction>) -> Seq<CfiSem> {
    Seq::new(v.len(), |k: int| write_cfi_sem(v[k]))
}

pub open spec fn row_sems(rows: Seq<(int, CfiSem)>) -> Seq<CfiSem> {
    Seq::new(rows.len(), |k: int| rows[k].1)
}

/// the address a decoded pointer denotes (gimli treats direct and indirect alike when converting: the pointer
/// encoding, which is copied, already says whether it is indirect)
pub open spec fn pointer_value(p: rcfi::Pointer) -> u64 {
    match p { rcfi::Pointer::Direct(a) => a, rcfi::Pointer::Indirect(a) => a }
}

// ------------------------------------------------------------------------------------------------------------ range lists
// DWARF 5 2.17.3 / 7.28 (.debug_rnglists) and DWARF 2-4 2.17.3 / 7.23 (.debug_ranges, where an entry is an address
// pair when no base address is in effect and the CU base is 0, else an offset pair relative to the base).
use crate::read::rnglists as rrng;
use crate::write::range as wrng;
use crate::read::dwarf::unit_address;

/// the address function applied to an index-form operand: `.debug_addr[index]` of the unit, then the caller's function
pub open spec fn conv_addrx<CA: Fn(u64) -> Option<Address>>(ca: &CA, unit: usize, index: usize, out: Address) -> bool {
    unit_address(unit, index) matches Ok(a) && conv_addr(ca, a, out)
}

/// one raw entry `e`, read while `hb` ("a base address is in effect") holds, denotes the same range as `out`
pub open spec fn range_entry_rel<CA: Fn(u64) -> Option<Address>>(ca: &CA, unit: usize, e: rrng::RawRngListEntry<usize>, hb: bool, out: wrng::Range) -> bool {
    match e {
        // offsets are relative to the base in effect and are NOT addresses: they must be carried over unchanged
        rrng::RawRngListEntry::AddressOrOffsetPair { begin, end } => if hb { out == (wrng::Range::OffsetPair { begin, end }) }
            else { out matches wrng::Range::StartEnd { begin: b, end: e2 } && conv_addr(ca, begin, b) && conv_addr(ca, end, e2) },
        rrng::RawRngListEntry::BaseAddress { addr } => out matches wrng::Range::BaseAddress { address } && conv_addr(ca, addr, address),
        rrng::RawRngListEntry::BaseAddressx { addr } => out matches wrng::Range::BaseAddress { address } && conv_addrx(ca, unit, addr.0, address),
        rrng::RawRngListEntry::StartxEndx { begin, end } => out matches wrng::Range::StartEnd { begin: b, end: e2 } && conv_addrx(ca, unit, begin.0, b) && conv_addrx(ca, unit, end.0, e2),
        rrng::RawRngListEntry::StartxLength { begin, length } => out matches wrng::Range::StartLength { begin: b, length: l } && conv_addrx(ca, unit, begin.0, b) && l == length,
        rrng::RawRngListEntry::OffsetPair { begin, end } => out == (wrng::Range::OffsetPair { begin, end }),
        rrng::RawRngListEntry::StartEnd { begin, end } => out matches wrng::Range::StartEnd { begin: b, end: e2 } && conv_addr(ca, begin, b) && conv_addr(ca, end, e2),
        rrng::RawRngListEntry::StartLength { begin, length } => out matches wrng::Range::StartLength { begin: b, length: l } && conv_addr(ca, begin, b) && l == length,
    }
}

/// "a base address is in effect" after the entries `src` (initially: the CU's low_pc is non-zero)
pub open spec fn rng_hb(src: Seq<rrng::RawRngListEntry<usize>>, hb0: bool) -> bool
    decreases src.len()
{
    if src.len() == 0 { hb0 } else { rng_hb(src.drop_last(), hb0) || src.last() is BaseAddress || src.last() is BaseAddressx }
}

/// a range that covers no address (dropping it does not change the meaning of the list)
pub open spec fn range_is_empty(r: wrng::Range) -> bool {
    match r {
        wrng::Range::StartLength { begin, length } => length == 0,
        wrng::Range::StartEnd { begin, end } => begin == end,
        wrng::Range::OffsetPair { begin, end } => begin == end,
        wrng::Range::BaseAddress { address } => false,
    }
}

/// the written list `out` is the raw list `src`, entry by entry and in order, except that empty ranges may be left out
pub open spec fn rng_list_rel<CA: Fn(u64) -> Option<Address>>(ca: &CA, unit: usize, src: Seq<rrng::RawRngListEntry<usize>>, hb0: bool, out: Seq<wrng::Range>) -> bool
    decreases src.len()
{
    if src.len() == 0 { out.len() == 0 } else {
        let pre = src.drop_last();
        let e = src.last();
        let hb = rng_hb(pre, hb0);
        (out.len() > 0 && !range_is_empty(out.last()) && range_entry_rel(ca, unit, e, hb, out.last()) && rng_list_rel(ca, unit, pre, hb0, out.drop_last()))
        || ((exists|r: wrng::Range| #[trigger] range_entry_rel(ca, unit, e, hb, r) && range_is_empty(r)) && rng_list_rel(ca, unit, pre, hb0, out))
    }
}

// ------------------------------------------------------------------------------------------------------------ location lists
// DWARF 5 2.6.2 / 7.29 (.debug_loclists) and DWARF 2-4 .debug_loc: as for ranges, plus a location description per entry
use crate::read::loclists as rloc;
use crate::write::loc as wloc;
use crate::read::Reader;

pub open spec fn loc_entry_rel<R: Reader, CA: Fn(u64) -> Option<Address>>(ca: &CA, unit: usize, enc: Encoding, e: rloc::RawLocListEntry<R>, hb: bool, out: wloc::Location) -> bool {
    match e {
        rloc::RawLocListEntry::AddressOrOffsetPair { begin, end, data } => if hb { out matches wloc::Location::OffsetPair { begin: b, end: e2, data: d } && b == begin && e2 == end && expr_conv(data.0.rv(), enc, true, d) }
            else { out matches wloc::Location::StartEnd { begin: b, end: e2, data: d } && conv_addr(ca, begin, b) && conv_addr(ca, end, e2) && expr_conv(data.0.rv(), enc, true, d) },
        rloc::RawLocListEntry::BaseAddress { addr } => out matches wloc::Location::BaseAddress { address } && conv_addr(ca, addr, address),
        rloc::RawLocListEntry::BaseAddressx { addr } => out matches wloc::Location::BaseAddress { address } && conv_addrx(ca, unit, addr.0.as_nat() as usize, address),
        rloc::RawLocListEntry::StartxEndx { begin, end, data } => out matches wloc::Location::StartEnd { begin: b, end: e2, data: d } && conv_addrx(ca, unit, begin.0.as_nat() as usize, b) && conv_addrx(ca, unit, end.0.as_nat() as usize, e2) && expr_conv(data.0.rv(), enc, true, d),
        rloc::RawLocListEntry::StartxLength { begin, length, data } => out matches wloc::Location::StartLength { begin: b, length: l, data: d } && conv_addrx(ca, unit, begin.0.as_nat() as usize, b) && l == length && expr_conv(data.0.rv(), enc, true, d),
        rloc::RawLocListEntry::OffsetPair { begin, end, data } => out matches wloc::Location::OffsetPair { begin: b, end: e2, data: d } && b == begin && e2 == end && expr_conv(data.0.rv(), enc, true, d),
        rloc::RawLocListEntry::DefaultLocation { data } => out matches wloc::Location::DefaultLocation { data: d } && expr_conv(data.0.rv(), enc, true, d),
        rloc::RawLocListEntry::StartEnd { begin, end, data } => out matches wloc::Location::StartEnd { begin: b, end: e2, data: d } && conv_addr(ca, begin, b) && conv_addr(ca, end, e2) && expr_conv(data.0.rv(), enc, true, d),
        rloc::RawLocListEntry::StartLength { begin, length, data } => out matches wloc::Location::StartLength { begin: b, length: l, data: d } && conv_addr(ca, begin, b) && l == length && expr_conv(data.0.rv(), enc, true, d),
    }
}

pub open spec fn loc_hb<R: Reader>(src: Seq<rloc::RawLocListEntry<R>>, hb0: bool) -> bool
    decreases src.len()
{
    if src.len() == 0 { hb0 } else { loc_hb(src.drop_last(), hb0) || src.last() is BaseAddress || src.last() is BaseAddressx }
}

pub open spec fn loc_is_empty(l: wloc::Location) -> bool {
    match l {
        wloc::Location::StartLength { begin, length, data } => length == 0,
        wloc::Location::StartEnd { begin, end, data } => begin == end,
        wloc::Location::OffsetPair { begin, end, data } => begin == end,
        _ => false,
    }
}

pub open spec fn loc_list_rel<R: Reader, CA: Fn(u64) -> Option<Address>>(ca: &CA, unit: usize, enc: Encoding, src: Seq<rloc::RawLocListEntry<R>>, hb0: bool, out: Seq<wloc::Location>) -> bool
    decreases src.len()
{
    if src.len() == 0 { out.len() == 0 } else {
        let pre = src.drop_last();
        let e = src.last();
        let hb = loc_hb(pre, hb0);
        (out.len() > 0 && !loc_is_empty(out.last()) && loc_entry_rel(ca, unit, enc, e, hb, out.last()) && loc_list_rel(ca, unit, enc, pre, hb0, out.drop_last()))
        || ((exists|l: wloc::Location| #[trigger] loc_entry_rel(ca, unit, enc, e, hb, l) && loc_is_empty(l)) && loc_list_rel(ca, unit, enc, pre, hb0, out))
    }
}

// ---- the representable sub-domain of the CFI conversion (write-side operands are i32 / u32 / u8 / i8).  The `*-inrange`
// clauses state exactness on this sub-domain; they hold on the pinned tree and keep guarding the mapping itself while
// the unconditional clauses above fail because of the narrowing casts (finding F7).
pub open spec fn fits_i32(v: int) -> bool { -0x8000_0000 <= v <= 0x7fff_ffff }

pub open spec fn cfi_in_range(i: rcfi::CallFrameInstruction<usize>, caf: int, daf: int, loc: int) -> bool {
    match i {
        rcfi::CallFrameInstruction::AdvanceLoc { delta } => caf <= 0xffff_ffff && delta as int * caf <= 0xffff_ffff && loc + delta as int * caf <= 0xffff_ffff,
        rcfi::CallFrameInstruction::DefCfa { register, offset } => offset <= 0x7fff_ffff,
        rcfi::CallFrameInstruction::DefCfaOffset { offset } => offset <= 0x7fff_ffff,
        rcfi::CallFrameInstruction::DefCfaSf { register, factored_offset } => fits_i32(factored_offset as int * daf),
        rcfi::CallFrameInstruction::DefCfaOffsetSf { factored_offset } => fits_i32(factored_offset as int * daf),
        rcfi::CallFrameInstruction::OffsetExtendedSf { register, factored_offset } => fits_i32(factored_offset as int * daf),
        rcfi::CallFrameInstruction::ValOffsetSf { register, factored_offset } => fits_i32(factored_offset as int * daf),
        rcfi::CallFrameInstruction::Offset { register, factored_offset } => factored_offset <= 0x7fff_ffff_ffff_ffff && fits_i32(factored_offset as int * daf),
        rcfi::CallFrameInstruction::ValOffset { register, factored_offset } => factored_offset <= 0x7fff_ffff_ffff_ffff && fits_i32(factored_offset as int * daf),
        rcfi::CallFrameInstruction::ArgsSize { size } => size <= 0xffff_ffff,
        _ => true,
    }
}
