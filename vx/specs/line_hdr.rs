// ---- DWARF line number program HEADER (DWARF 5 section 6.2.4, 6.2.4.1, table 7.27; DWARF 2-4 section 6.2.4).
// Ghost code only.  Loaded into crate::read::line next to vx/specs/line.rs' machine (module vspec_line): the header parser
// establishes `valid_line_hdr(h.lh())`, which is what the machine of vspec_line requires.
//
// Conventions: every spec fn takes the reader view *positioned at the item it describes*; `view_at(v, k)` is `v` after k
// bytes were consumed (same root, same end).  Nothing here needs sequence algebra.

/// the view `v` after k bytes were consumed
pub open spec fn view_at(v: RView, k: int) -> RView {
    RView { root: v.root, start: (v.start + k) as nat, len: (v.len - k) as nat, be: v.be }
}

// ---------------------------------------------------------------------------------------------------------------------
// 6.2.4.1 entry formats: "a sequence of ubyte count, then count pairs of ULEB128: content type code, form code"

pub open spec fn lnct_path() -> u16 { 0x1 }
pub open spec fn lnct_directory_index() -> u16 { 0x2 }
pub open spec fn lnct_timestamp() -> u16 { 0x3 }
pub open spec fn lnct_size() -> u16 { 0x4 }
pub open spec fn lnct_md5() -> u16 { 0x5 }
/// vendor extension (LLVM): embedded source text
pub open spec fn lnct_llvm_source() -> u16 { 0x2001 }

/// number of descriptors among s[0..j) whose content type code is `ct`
pub open spec fn count_ct(s: Seq<FileEntryFormat>, ct: u16, j: int) -> nat
    decreases j
{
    if j <= 0 { 0 } else { count_ct(s, ct, j - 1) + (if s[j - 1].content_type.0 == ct { 1nat } else { 0nat }) }
}

/// index of the last descriptor among s[0..j) whose content type code is `ct`; -1 if there is none
pub open spec fn last_ct(s: Seq<FileEntryFormat>, ct: u16, j: int) -> int
    decreases j
{
    if j <= 0 { -1 } else if s[j - 1].content_type.0 == ct { j - 1 } else { last_ct(s, ct, j - 1) }
}

/// 6.2.4.1: every directory / file entry has a path: gimli demands EXACTLY ONE DW_LNCT_path descriptor
/// (this is what makes the two `path_name.unwrap()` of parse_directory_v5 / parse_file_v5 safe)
pub open spec fn one_path(s: Seq<FileEntryFormat>) -> bool {
    count_ct(s, lnct_path(), s.len() as int) == 1
}

pub proof fn lemma_count_push(s: Seq<FileEntryFormat>, x: FileEntryFormat, ct: u16, j: int)
    requires j <= s.len()
    ensures count_ct(s.push(x), ct, j) == count_ct(s, ct, j)
    decreases j
{
    if j > 0 {
        lemma_count_push(s, x, ct, j - 1);
        assert(s.push(x)[j - 1] == s[j - 1]);
    }
}

pub proof fn lemma_count_last(s: Seq<FileEntryFormat>, ct: u16, j: int)
    requires 0 <= j <= s.len()
    ensures
        count_ct(s, ct, j) <= j,
        count_ct(s, ct, j) >= 1 <==> last_ct(s, ct, j) >= 0,
        -1 <= last_ct(s, ct, j) < j,
        last_ct(s, ct, j) >= 0 ==> s[last_ct(s, ct, j)].content_type.0 == ct,
    decreases j
{
    if j > 0 {
        lemma_count_last(s, ct, j - 1);
    }
}

/// descriptor i of an entry-format sequence whose count byte is at the read position of b0:
/// content type = ULEB128 number 2i, form = ULEB128 number 2i+1 after the count byte.
/// gimli keeps content type codes in a u16: a code above 0xffff is stored as a value that is no standard or vendor
/// code (> DW_LNCT_hi_user), i.e. as an unknown content type; a form code above 0xffff is rejected.
pub open spec fn fmt_entry_ok(b0: RView, i: int, f: FileEntryFormat) -> bool {
    let p = 1 + lebs_len(b0, 1, (2 * i) as nat);
    let ct = b0.uleb(p);
    let q = p + b0.leb_len(p);
    &&& ct <= 0xffff ==> f.content_type.0 as nat == ct
    &&& ct > 0xffff ==> f.content_type.0 > 0x3fff
    &&& f.form.0 as nat == b0.uleb(q)
}

// ---------------------------------------------------------------------------------------------------------------------
// 6.2.4.1 entries: "each entry is a sequence of fields, one per descriptor, encoded with the descriptor's form"

/// total length of the fields 0..j of the entry that starts at the read position of v
pub open spec fn fields_len(v: RView, enc: Encoding, s: Seq<FileEntryFormat>, j: int) -> nat
    decreases j
{
    if j <= 0 { 0 } else {
        let k = fields_len(v, enc, s, j - 1);
        k + form_len(view_at(v, k as int), enc, s[j - 1].form.0 as nat, 0)
    }
}

/// view positioned at field j of the entry that starts at v
pub open spec fn field_view(v: RView, enc: Encoding, s: Seq<FileEntryFormat>, j: int) -> RView {
    view_at(v, fields_len(v, enc, s, j) as int)
}

/// unsigned reading of a field of class constant (7.5.5: data1/2/4/8 are zero-extended, udata, a non-negative sdata);
/// None for every other form
pub open spec fn form_unum(v: RView, form: nat) -> Option<nat> {
    if form == 0x0b { Some(v.at(0) as nat) }            // DW_FORM_data1
    else if form == 0x05 { Some(v.u(0, 2)) }            // DW_FORM_data2
    else if form == 0x06 { Some(v.u(0, 4)) }            // DW_FORM_data4
    else if form == 0x07 { Some(v.u(0, 8)) }            // DW_FORM_data8
    else if form == 0x0f { Some(v.uleb(0)) }            // DW_FORM_udata
    else if form == 0x0d { if v.sleb(0) >= 0 { Some(v.sleb(0) as nat) } else { None } }   // DW_FORM_sdata
    else { None }
}

/// (offset of the data, length of the data) of a field of class block; DW_FORM_data16 is "a 16-byte block" here (MD5)
pub open spec fn form_block(v: RView, form: nat) -> Option<(int, nat)> {
    if form == 0x1e { Some((0int, 16nat)) }                                 // DW_FORM_data16
    else if form == 0x0a { Some((1int, v.at(0) as nat)) }                   // DW_FORM_block1
    else if form == 0x03 { Some((2int, v.u(0, 2))) }                        // DW_FORM_block2
    else if form == 0x04 { Some((4int, v.u(0, 4))) }                        // DW_FORM_block4
    else if form == 0x09 { Some((v.leb_len(0) as int, v.uleb(0))) }         // DW_FORM_block
    else { None }
}

/// value of a numeric component (directory index, timestamp, size) after the fields 0..j: the value of the last field
/// with that content type that has an unsigned constant form; 0 ("not available") if there is none
pub open spec fn num_upto(v: RView, enc: Encoding, s: Seq<FileEntryFormat>, ct: u16, j: int) -> nat
    decreases j
{
    if j <= 0 { 0 }
    else if s[j - 1].content_type.0 == ct && form_unum(field_view(v, enc, s, j - 1), s[j - 1].form.0 as nat) is Some {
        form_unum(field_view(v, enc, s, j - 1), s[j - 1].form.0 as nat)->Some_0
    } else { num_upto(v, enc, s, ct, j - 1) }
}

/// offset (from the entry start) of the 16 bytes of the MD5 component after the fields 0..j: the data of the last
/// DW_LNCT_MD5 field that is a 16-byte block; -1 if there is none (the digest is then all zero)
pub open spec fn md5_upto(v: RView, enc: Encoding, s: Seq<FileEntryFormat>, j: int) -> int
    decreases j
{
    if j <= 0 { -1 }
    else if s[j - 1].content_type.0 == lnct_md5() && (form_block(field_view(v, enc, s, j - 1), s[j - 1].form.0 as nat) matches Some(b) && b.1 == 16) {
        fields_len(v, enc, s, j - 1) + form_block(field_view(v, enc, s, j - 1), s[j - 1].form.0 as nat)->Some_0.0
    } else { md5_upto(v, enc, s, j - 1) }
}

/*ATTR_OK*/

/// the path component: the decoded value of the (last) DW_LNCT_path field
pub open spec fn fe_path_ok<R: Reader<Offset = Offset>, Offset: ReaderOffset>(v: RView, enc: Encoding, s: Seq<FileEntryFormat>, path: AttributeValue<R, Offset>) -> bool {
    let j = last_ct(s, lnct_path(), s.len() as int);
    j >= 0 && line_attr_ok(field_view(v, enc, s, j), enc, s[j].form.0 as nat, path)
}

/// the vendor source component: the decoded value of the (last) DW_LNCT_LLVM_source field, None if there is none
pub open spec fn fe_source_ok<R: Reader<Offset = Offset>, Offset: ReaderOffset>(v: RView, enc: Encoding, s: Seq<FileEntryFormat>, source: Option<AttributeValue<R, Offset>>) -> bool {
    let j = last_ct(s, lnct_llvm_source(), s.len() as int);
    if j < 0 { source is None } else { source matches Some(x) && line_attr_ok(field_view(v, enc, s, j), enc, s[j].form.0 as nat, x) }
}

pub open spec fn fe_md5_ok(v: RView, enc: Encoding, s: Seq<FileEntryFormat>, md5: [u8; 16]) -> bool {
    let m = md5_upto(v, enc, s, s.len() as int);
    if m < 0 { forall|k: int| 0 <= k < 16 ==> md5[k] == 0 } else { forall|k: int| 0 <= k < 16 ==> md5[k] == v.at(m + k) }
}

/// a version 5 file name entry (6.2.4.1 item 13): what `parse_file_v5` returns for the entry at v
pub open spec fn file_v5_ok<R: Reader<Offset = Offset>, Offset: ReaderOffset>(v: RView, enc: Encoding, s: Seq<FileEntryFormat>, e: FileEntry<R, Offset>) -> bool {
    &&& fe_path_ok(v, enc, s, e.path_v())
    &&& e.dir_v() as nat == num_upto(v, enc, s, lnct_directory_index(), s.len() as int)
    &&& e.time_v() as nat == num_upto(v, enc, s, lnct_timestamp(), s.len() as int)
    &&& e.size_v() as nat == num_upto(v, enc, s, lnct_size(), s.len() as int)
    &&& fe_md5_ok(v, enc, s, e.md5_v())
    &&& fe_source_ok(v, enc, s, e.source_v())
}

/// total length of the first i entries of a version 5 table (entries are laid out back to back)
pub open spec fn entries_len(v: RView, enc: Encoding, s: Seq<FileEntryFormat>, i: int) -> nat
    decreases i
{
    if i <= 0 { 0 } else {
        let k = entries_len(v, enc, s, i - 1);
        k + fields_len(view_at(v, k as int), enc, s, s.len() as int)
    }
}
