// ---- DWARF line number program HEADER (DWARF 5 section 6.2.4, 6.2.4.1, table 7.27; DWARF 2-4 section 6.2.4).
// Ghost code only.  Loaded into crate::read::line next to vx/specs/line.rs' machine (module vspec_line): the header parser
// establishes `valid_line_hdr(h.lh())`, which is what the machine of vspec_line requires.
//
// Conventions: every spec fn takes the reader view *positioned at the item it describes*; `view_at(v, k)` is `v` after k
// bytes were consumed (same root, same end).  Nothing here needs sequence algebra.

/// the view `v` after k bytes were consumed
pub open spec fn view_at(v: RView, k: int) -> RView {
    RView { root: v.root, start: (v.start + k) as nat, len: (v.len - k) as nat, be: v.be }
}

// ---------------------------------------------------------------------------------------------------------------------
// 6.2.4.1 entry formats: "a sequence of ubyte count, then count pairs of ULEB128: content type code, form code"

pub open spec fn lnct_path() -> u16 { 0x1 }
pub open spec fn lnct_directory_index() -> u16 { 0x2 }
pub open spec fn lnct_timestamp() -> u16 { 0x3 }
pub open spec fn lnct_size() -> u16 { 0x4 }
pub open spec fn lnct_md5() -> u16 { 0x5 }
/// vendor extension (LLVM): embedded source text
pub open spec fn lnct_llvm_source() -> u16 { 0x2001 }

/// number of descriptors among s[0..j) whose content type code is `ct`
pub open spec fn count_ct(s: Seq<FileEntryFormat>, ct: u16, j: int) -> nat
    decreases j
{
    if j <= 0 { 0 } else { count_ct(s, ct, j - 1) + (if s[j - 1].content_type.0 == ct { 1nat } else { 0nat }) }
}

/// index of the last descriptor among s[0..j) whose content type code is `ct`; -1 if there is none
pub open spec fn last_ct(s: Seq<FileEntryFormat>, ct: u16, j: int) -> int
    decreases j
{
    if j <= 0 { -1 } else if s[j - 1].content_type.0 == ct { j - 1 } else { last_ct(s, ct, j - 1) }
}

/// 6.2.4.1: every directory / file entry has a path: gimli demands EXACTLY ONE DW_LNCT_path descriptor
/// (this is what makes the two `path_name.unwrap()` of parse_directory_v5 / parse_file_v5 safe)
pub open spec fn one_path(s: Seq<FileEntryFormat>) -> bool {
    count_ct(s, lnct_path(), s.len() as int) == 1
}

pub proof fn lemma_count_push(s: Seq<FileEntryFormat>, x: FileEntryFormat, ct: u16, j: int)
    requires j <= s.len()
    ensures count_ct(s.push(x), ct, j) == count_ct(s, ct, j)
    decreases j
{
    if j > 0 {
        lemma_count_push(s, x, ct, j - 1);
        assert(s.push(x)[j - 1] == s[j - 1]);
    }
}

pub proof fn lemma_count_last(s: Seq<FileEntryFormat>, ct: u16, j: int)
    requires 0 <= j <= s.len()
    ensures
        count_ct(s, ct, j) <= j,
        count_ct(s, ct, j) >= 1 <==> last_ct(s, ct, j) >= 0,
        -1 <= last_ct(s, ct, j) < j,
        last_ct(s, ct, j) >= 0 ==> s[last_ct(s, ct, j)].content_type.0 == ct,
    decreases j
{
    if j > 0 {
        lemma_count_last(s, ct, j - 1);
    }
}

/// descriptor i of an entry-format sequence whose count byte is at the read position of b0:
/// content type = ULEB128 number 2i, form = ULEB128 number 2i+1 after the count byte.
/// gimli keeps content type codes in a u16: a code above 0xffff is stored as a value that is no standard or vendor
/// code (> DW_LNCT_hi_user), i.e. as an unknown content type; a form code above 0xffff is rejected.
pub open spec fn fmt_entry_ok(b0: RView, i: int, f: FileEntryFormat) -> bool {
    let p = 1 + lebs_len(b0, 1, (2 * i) as nat) as int;
    let ct = b0.uleb(p);
    let q = p + b0.leb_len(p);
    &&& ct <= 0xffff ==> f.content_type.0 as nat == ct
    &&& ct > 0xffff ==> f.content_type.0 > 0x3fff
    &&& f.form.0 as nat == b0.uleb(q)
}

// ---------------------------------------------------------------------------------------------------------------------
// 6.2.4.1 entries: "each entry is a sequence of fields, one per descriptor, encoded with the descriptor's form"

/// total length of the fields 0..j of the entry that starts at the read position of v
pub open spec fn fields_len(v: RView, enc: Encoding, s: Seq<FileEntryFormat>, j: int) -> nat
    decreases j
{
    if j <= 0 { 0 } else {
        let k = fields_len(v, enc, s, j - 1);
        k + form_len(view_at(v, k as int), enc, s[j - 1].form.0 as nat, 0)
    }
}

/// view positioned at field j of the entry that starts at v
pub open spec fn field_view(v: RView, enc: Encoding, s: Seq<FileEntryFormat>, j: int) -> RView {
    view_at(v, fields_len(v, enc, s, j) as int)
}

/// unsigned reading of a field of class constant (7.5.5: data1/2/4/8 are zero-extended, udata, a non-negative sdata);
/// None for every other form
pub open spec fn form_unum(v: RView, form: nat) -> Option<nat> {
    if form == 0x0b { Some(v.at(0) as nat) }            // DW_FORM_data1
    else if form == 0x05 { Some(v.u(0, 2)) }            // DW_FORM_data2
    else if form == 0x06 { Some(v.u(0, 4)) }            // DW_FORM_data4
    else if form == 0x07 { Some(v.u(0, 8)) }            // DW_FORM_data8
    else if form == 0x0f { Some(v.uleb(0)) }            // DW_FORM_udata
    else if form == 0x0d { if v.sleb(0) >= 0 { Some(v.sleb(0) as nat) } else { None } }   // DW_FORM_sdata
    else { None }
}

/// (offset of the data, length of the data) of a field of class block; DW_FORM_data16 is "a 16-byte block" here (MD5)
pub open spec fn form_block(v: RView, form: nat) -> Option<(int, nat)> {
    if form == 0x1e { Some((0int, 16nat)) }                                 // DW_FORM_data16
    else if form == 0x0a { Some((1int, v.at(0) as nat)) }                   // DW_FORM_block1
    else if form == 0x03 { Some((2int, v.u(0, 2))) }                        // DW_FORM_block2
    else if form == 0x04 { Some((4int, v.u(0, 4))) }                        // DW_FORM_block4
    else if form == 0x09 { Some((v.leb_len(0) as int, v.uleb(0))) }         // DW_FORM_block
    else { None }
}

/// value of a numeric component (directory index, timestamp, size) after the fields 0..j: the value of the last field
/// with that content type that has an unsigned constant form; 0 ("not available") if there is none
pub open spec fn num_upto(v: RView, enc: Encoding, s: Seq<FileEntryFormat>, ct: u16, j: int) -> nat
    decreases j
{
    if j <= 0 { 0 }
    else if s[j - 1].content_type.0 == ct && form_unum(field_view(v, enc, s, j - 1), s[j - 1].form.0 as nat) is Some {
        form_unum(field_view(v, enc, s, j - 1), s[j - 1].form.0 as nat)->Some_0
    } else { num_upto(v, enc, s, ct, j - 1) }
}

/// offset (from the entry start) of the 16 bytes of the MD5 component after the fields 0..j: the data of the last
/// DW_LNCT_MD5 field that is a 16-byte block; -1 if there is none (the digest is then all zero)
pub open spec fn md5_upto(v: RView, enc: Encoding, s: Seq<FileEntryFormat>, j: int) -> int
    decreases j
{
    if j <= 0 { -1 }
    else if s[j - 1].content_type.0 == lnct_md5() && (form_block(field_view(v, enc, s, j - 1), s[j - 1].form.0 as nat) matches Some(b) && b.1 == 16) {
        fields_len(v, enc, s, j - 1) + form_block(field_view(v, enc, s, j - 1), s[j - 1].form.0 as nat)->Some_0.0
    } else { md5_upto(v, enc, s, j - 1) }
}

/*ATTR_OK*/

/// the path component: the decoded value of the (last) DW_LNCT_path field
pub open spec fn fe_path_ok<R: Reader<Offset = Offset>, Offset: ReaderOffset>(v: RView, enc: Encoding, s: Seq<FileEntryFormat>, path: AttributeValue<R, Offset>) -> bool {
    let j = last_ct(s, lnct_path(), s.len() as int);
    j >= 0 && line_attr_ok(field_view(v, enc, s, j), enc, s[j].form.0 as nat, path)
}

/// the vendor source component: the decoded value of the (last) DW_LNCT_LLVM_source field, None if there is none
pub open spec fn fe_source_ok<R: Reader<Offset = Offset>, Offset: ReaderOffset>(v: RView, enc: Encoding, s: Seq<FileEntryFormat>, source: Option<AttributeValue<R, Offset>>) -> bool {
    let j = last_ct(s, lnct_llvm_source(), s.len() as int);
    if j < 0 { source is None } else { source matches Some(x) && line_attr_ok(field_view(v, enc, s, j), enc, s[j].form.0 as nat, x) }
}

pub open spec fn fe_md5_ok(v: RView, enc: Encoding, s: Seq<FileEntryFormat>, md5: [u8; 16]) -> bool {
    let m = md5_upto(v, enc, s, s.len() as int);
    if m < 0 { forall|k: int| 0 <= k < 16 ==> md5[k] == 0 } else { forall|k: int| 0 <= k < 16 ==> md5[k] == v.at(m + k) }
}

/// a version 5 file name entry (6.2.4.1 item 13): what `parse_file_v5` returns for the entry at v
pub open spec fn file_v5_ok<R: Reader<Offset = Offset>, Offset: ReaderOffset>(v: RView, enc: Encoding, s: Seq<FileEntryFormat>, e: FileEntry<R, Offset>) -> bool {
    &&& fe_path_ok(v, enc, s, e.path_v())
    &&& e.dir_v() as nat == num_upto(v, enc, s, lnct_directory_index(), s.len() as int)
    &&& e.time_v() as nat == num_upto(v, enc, s, lnct_timestamp(), s.len() as int)
    &&& e.size_v() as nat == num_upto(v, enc, s, lnct_size(), s.len() as int)
    &&& fe_md5_ok(v, enc, s, e.md5_v())
    &&& fe_source_ok(v, enc, s, e.source_v())
}

/// total length of the first i entries of a version 5 table (entries are laid out back to back)
pub open spec fn entries_len(v: RView, enc: Encoding, s: Seq<FileEntryFormat>, i: int) -> nat
    decreases i
{
    if i <= 0 { 0 } else {
        let k = entries_len(v, enc, s, i - 1);
        k + fields_len(view_at(v, k as int), enc, s, s.len() as int)
    }
}

// ---------------------------------------------------------------------------------------------------------------------
// 6.2.4 the header.  b0 = view positioned at the unit_length field; `given` = the address size the caller passes in
// (versions 2-4 have no address_size field: "the address size of the compilation unit").
//
//   unit_length (4 or 12 bytes) | version uhalf | v5: address_size ubyte, segment_selector_size ubyte |
//   header_length (4 or 8)      | minimum_instruction_length ubyte | v>=4: maximum_operations_per_instruction ubyte |
//   default_is_stmt ubyte | line_base sbyte | line_range ubyte | opcode_base ubyte |
//   standard_opcode_lengths ubyte[opcode_base - 1] | directory and file tables | (program starts header_length bytes
//   after the header_length field and runs to the end of the unit)

/// 7.4: initial length: 0xffffffff escapes to the 64-bit format; 0xfffffff0..0xfffffffe are reserved
pub open spec fn il_size(b0: RView) -> nat { if b0.u(0, 4) < 0xffff_fff0 { 4 } else { 12 } }
pub open spec fn il_len(b0: RView) -> nat { if b0.u(0, 4) < 0xffff_fff0 { b0.u(0, 4) } else { b0.u(4, 8) } }
pub open spec fn il_format(b0: RView) -> Format { if b0.u(0, 4) < 0xffff_fff0 { Format::Dwarf32 } else { Format::Dwarf64 } }

/// the unit: the il_len bytes after the initial length
pub open spec fn lp_unit(b0: RView) -> RView { sub_view(b0, il_size(b0), il_len(b0)) }
pub open spec fn lp_version(b0: RView) -> nat { lp_unit(b0).u(0, 2) }
/// offset of the header_length field in the unit
pub open spec fn lp_hl_pos(b0: RView) -> int { if lp_version(b0) >= 5 { 4 } else { 2 } }
pub open spec fn lp_header_length(b0: RView) -> nat { lp_unit(b0).u(lp_hl_pos(b0), word_size(il_format(b0)) as int) }
/// the header proper: the header_length bytes after the header_length field; the tables may not run past it
pub open spec fn lp_hdr(b0: RView) -> RView {
    sub_view(lp_unit(b0), (lp_hl_pos(b0) + word_size(il_format(b0))) as nat, lp_header_length(b0))
}
/// the line number program: from the end of the header to the end of the unit
pub open spec fn lp_program(b0: RView) -> RView {
    let o = lp_hl_pos(b0) + word_size(il_format(b0)) + lp_header_length(b0);
    sub_view(lp_unit(b0), o as nat, (lp_unit(b0).len - o) as nat)
}
/// offset of default_is_stmt in the header proper (maximum_operations_per_instruction exists from version 4 on)
pub open spec fn lp_q(b0: RView) -> int { if lp_version(b0) >= 4 { 2 } else { 1 } }

/// the parameters of the line number machine as encoded in the header
pub open spec fn lp_lh(b0: RView, given: u8) -> LineHdr {
    let h = lp_hdr(b0);
    let q = lp_q(b0);
    LineHdr {
        version: lp_version(b0) as int,
        address_size: if lp_version(b0) >= 5 { lp_unit(b0).at(2) as int } else { given as int },
        min_inst_len: h.at(0) as int,
        max_ops: if lp_version(b0) >= 4 { h.at(1) as int } else { 1 },
        default_is_stmt: h.at(q) != 0,
        line_base: sext(h.at(q + 1) as nat, 8),
        line_range: h.at(q + 2) as int,
        opcode_base: h.at(q + 3) as int,
    }
}
/// standard_opcode_lengths: opcode_base - 1 bytes
pub open spec fn lp_sol(b0: RView) -> RView {
    sub_view(lp_hdr(b0), (lp_q(b0) + 4) as nat, (lp_hdr(b0).at(lp_q(b0) + 3) - 1) as nat)
}
/// view positioned at the directory table (what is left of the header proper after standard_opcode_lengths)
pub open spec fn lp_tables(b0: RView) -> RView {
    view_at(lp_hdr(b0), lp_q(b0) + 4 + lp_hdr(b0).at(lp_q(b0) + 3) - 1)
}

/// the fixed part of the header is complete: every field lies inside its enclosing window
pub open spec fn lp_fits(b0: RView) -> bool {
    &&& il_size(b0) + il_len(b0) <= b0.len
    &&& lp_hl_pos(b0) + word_size(il_format(b0)) + lp_header_length(b0) <= lp_unit(b0).len
    &&& lp_q(b0) + 4 + lp_hdr(b0).at(lp_q(b0) + 3) - 1 <= lp_hdr(b0).len
    &&& lp_hdr(b0).at(lp_q(b0) + 3) >= 1
}

// ---- versions 2-4: include_directories = null-terminated strings, ended by an empty string;
//      file_names = (string, ULEB dir index, ULEB mtime, ULEB length), ended by an empty string

/// total length of the first i strings (with their NULs) from the read position of v
pub open spec fn strs_len(v: RView, i: int) -> nat
    decreases i
{
    if i <= 0 { 0 } else { let k = strs_len(v, i - 1); k + cstr_len(v, k as int) + 1 }
}

pub open spec fn dirs_v4_ok<R: Reader<Offset = Offset>, Offset: ReaderOffset>(v: RView, dirs: Seq<AttributeValue<R, Offset>>) -> bool {
    forall|i: int| 0 <= i < dirs.len() ==> ({
        let k = strs_len(v, i);
        let l = cstr_len(v, k as int);
        (#[trigger] dirs[i]) matches AttributeValue::String(r) && l >= 1 && k + l < v.len && window(v, r.rv(), k, l)
    })
}

/// the empty string that ends a version 2-4 table is at offset k
pub open spec fn table_end_v4(v: RView, k: int) -> bool {
    0 <= k < v.len && v.at(k) == 0
}

/// one version 2-4 file entry at the read position of v
pub open spec fn file_v4_ok<R: Reader<Offset = Offset>, Offset: ReaderOffset>(v: RView, e: FileEntry<R, Offset>) -> bool {
    let l = cstr_len(v, 0) as int;
    let s = l + 1;
    let l0 = v.leb_len(s) as int;
    let l1 = v.leb_len(s + l0) as int;
    &&& l >= 1 && l < v.len
    &&& e.path_v() matches AttributeValue::String(r) && window(v, r.rv(), 0, l as nat)
    &&& e.dir_v() as nat == v.uleb(s)
    &&& e.time_v() as nat == v.uleb(s + l0)
    &&& e.size_v() as nat == v.uleb(s + l0 + l1)
    &&& e.source_v() is None
    &&& forall|k: int| 0 <= k < 16 ==> e.md5_v()[k] == 0
}

pub open spec fn file_v4_len(v: RView) -> nat {
    let s = cstr_len(v, 0) as int + 1;
    let l0 = v.leb_len(s) as int;
    let l1 = v.leb_len(s + l0) as int;
    (s + l0 + l1 + v.leb_len(s + l0 + l1)) as nat
}

pub open spec fn files_v4_len(v: RView, i: int) -> nat
    decreases i
{
    if i <= 0 { 0 } else { let k = files_v4_len(v, i - 1); k + file_v4_len(view_at(v, k as int)) }
}

pub open spec fn files_v4_ok<R: Reader<Offset = Offset>, Offset: ReaderOffset>(v: RView, files: Seq<FileEntry<R, Offset>>) -> bool {
    forall|i: int| 0 <= i < files.len() ==> file_v4_ok(view_at(v, files_v4_len(v, i) as int), #[trigger] files[i])
}

// ---- version 5: entry-format-driven tables

pub open spec fn fmts_ok(v: RView, f: Seq<FileEntryFormat>) -> bool {
    &&& f.len() == v.at(0)
    &&& one_path(f)
    &&& forall|i: int| 0 <= i < f.len() ==> fmt_entry_ok(v, i, #[trigger] f[i])
}
pub open spec fn fmts_size(v: RView) -> nat { 1 + lebs_len(v, 1, (2 * v.at(0)) as nat) }

/// view positioned at the first entry of a v5 table whose entry-format count byte is at v (formats, then ULEB count)
pub open spec fn entries_view(v: RView) -> RView {
    let c = view_at(v, fmts_size(v) as int);
    view_at(c, c.leb_len(0) as int)
}
pub open spec fn entries_count(v: RView) -> nat { view_at(v, fmts_size(v) as int).uleb(0) }

pub open spec fn dirs_v5_ok<R: Reader<Offset = Offset>, Offset: ReaderOffset>(v: RView, enc: Encoding, f: Seq<FileEntryFormat>, dirs: Seq<AttributeValue<R, Offset>>) -> bool {
    forall|i: int| 0 <= i < dirs.len() ==> fe_path_ok(view_at(v, entries_len(v, enc, f, i) as int), enc, f, #[trigger] dirs[i])
}
pub open spec fn files_v5_ok<R: Reader<Offset = Offset>, Offset: ReaderOffset>(v: RView, enc: Encoding, f: Seq<FileEntryFormat>, files: Seq<FileEntry<R, Offset>>) -> bool {
    forall|i: int| 0 <= i < files.len() ==> file_v5_ok(view_at(v, entries_len(v, enc, f, i) as int), enc, f, #[trigger] files[i])
}

/// what `LineProgramHeader::parse` has established once the fixed part of the header is decoded (carried through the
/// four table loops): the decoded values are the encoded fields, the rejected values (0 for minimum_instruction_length,
/// maximum_operations_per_instruction, line_range, opcode_base; version outside 2..=5; v5 segment selectors) are absent
pub open spec fn lp_fixed_def(b0: RView, given: u8, enc: Encoding, ul: nat, hl: nat, le: LineEncoding, ob: u8, sol: RView, prog: RView) -> bool {
    let lh = lp_lh(b0, given);
    &&& lp_fits(b0)
    &&& enc.format == il_format(b0)
    &&& enc.version as int == lh.version && 2 <= enc.version <= 5
    &&& enc.address_size as int == lh.address_size && valid_address_size(enc.address_size)
    &&& enc.version >= 5 ==> lp_unit(b0).at(3) == 0
    &&& ul == il_len(b0) && hl == lp_header_length(b0)
    &&& le.minimum_instruction_length as int == lh.min_inst_len && le.minimum_instruction_length != 0
    &&& le.maximum_operations_per_instruction as int == lh.max_ops && le.maximum_operations_per_instruction != 0
    &&& le.default_is_stmt == lh.default_is_stmt
    &&& le.line_base as int == lh.line_base
    &&& le.line_range as int == lh.line_range && le.line_range != 0
    &&& ob as int == lh.opcode_base && ob != 0
    &&& sol == lp_sol(b0)
    &&& prog == lp_program(b0)
}

/// `lp_fixed_def` as an atom: the table loops and the exits of `parse` carry it without looking inside
#[verifier::opaque]
pub open spec fn lp_fixed_ok(b0: RView, given: u8, enc: Encoding, ul: nat, hl: nat, le: LineEncoding, ob: u8, sol: RView, prog: RView) -> bool {
    lp_fixed_def(b0, given, enc, ul, hl, le, ob, sol, prog)
}

pub proof fn lemma_fixed_intro(b0: RView, given: u8, enc: Encoding, ul: nat, hl: nat, le: LineEncoding, ob: u8, sol: RView, prog: RView)
    requires lp_fixed_def(b0, given, enc, ul, hl, le, ob, sol, prog)
    ensures lp_fixed_ok(b0, given, enc, ul, hl, le, ob, sol, prog)
{
    reveal(lp_fixed_ok);
}

/// the machine parameters as `LineProgramHeader::lh()` assembles them from the decoded fields
pub open spec fn mk_lh(enc: Encoding, le: LineEncoding, ob: u8) -> LineHdr {
    LineHdr {
        version: enc.version as int, address_size: enc.address_size as int,
        min_inst_len: le.minimum_instruction_length as int, max_ops: le.maximum_operations_per_instruction as int,
        default_is_stmt: le.default_is_stmt, line_base: le.line_base as int, line_range: le.line_range as int, opcode_base: ob as int,
    }
}

/// [C04:header-valid]: the fixed part as decoded and checked by the parser is a valid parameter set of the machine
pub proof fn lemma_fixed_valid(b0: RView, given: u8, enc: Encoding, ul: nat, hl: nat, le: LineEncoding, ob: u8, sol: RView, prog: RView)
    requires lp_fixed_ok(b0, given, enc, ul, hl, le, ob, sol, prog)
    ensures
        valid_line_hdr(mk_lh(enc, le, ob)),
        mk_lh(enc, le, ob) == lp_lh(b0, given),
        enc.version as nat == lp_version(b0),
        enc.format == il_format(b0), ul == il_len(b0), hl == lp_header_length(b0),
        sol == lp_sol(b0), prog == lp_program(b0), lp_fits(b0),
        enc.version >= 5 ==> lp_unit(b0).at(3) == 0,
{
    reveal(lp_fixed_ok);
}

// ---- empty tables (loop entry of the four table loops of LineProgramHeader::parse, where the table predicates are hidden)
pub proof fn lemma_dirs_v4_empty<R: Reader<Offset = Offset>, Offset: ReaderOffset>(v: RView, dirs: Seq<AttributeValue<R, Offset>>)
    requires dirs.len() == 0
    ensures dirs_v4_ok(v, dirs)
{}
pub proof fn lemma_files_v4_empty<R: Reader<Offset = Offset>, Offset: ReaderOffset>(v: RView, files: Seq<FileEntry<R, Offset>>)
    requires files.len() == 0
    ensures files_v4_ok(v, files)
{}
pub proof fn lemma_dirs_v5_empty<R: Reader<Offset = Offset>, Offset: ReaderOffset>(v: RView, enc: Encoding, f: Seq<FileEntryFormat>, dirs: Seq<AttributeValue<R, Offset>>)
    requires dirs.len() == 0
    ensures dirs_v5_ok(v, enc, f, dirs)
{}
pub proof fn lemma_files_v5_empty<R: Reader<Offset = Offset>, Offset: ReaderOffset>(v: RView, enc: Encoding, f: Seq<FileEntryFormat>, files: Seq<FileEntry<R, Offset>>)
    requires files.len() == 0
    ensures files_v5_ok(v, enc, f, files)
{}
