#!/usr/bin/env python3
"""dump the failed obligations of a batch as candidate known_findings.json entries"""
import json, sys, os
sys.path.insert(0, os.path.dirname(os.path.abspath(__file__)))
import run as vxrun
r = vxrun.run_batch(sys.argv[1])
out = []
for e in r['errors']:
    for p in e.get('props', []):
        m = {'fn': e['fn'], 'msg': e['msg']}
        if e['tags']:
            m['tag'] = e['tags'][0]
        else:
            m['text'] = ' '.join(e['text'].split())[:160]
        out.append({'property': p, 'match': m})
print(json.dumps({'status': r['status'], 'problems': r['problems'], 'entries': out}, indent=1))
