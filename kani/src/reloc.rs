//! K-RELOC (C18, C10): `RelocateReader` over the borrowed reader.
//!
//! * identity relocation: for ONE arbitrary operation with arbitrary arguments from an arbitrary window state, the
//!   relocating reader returns exactly what the bare `EndianSlice` returns (results incl. errors and their offset
//!   ids, and the remaining window) — "identity-relocating readers give identical results" (C10);
//! * a relocation that depends on everything it is given (`value + k + offset`, failing at one chosen offset):
//!   `read_address` / `read_offset` / `read_sized_offset` return `relocate(section offset, raw)` for every size
//!   and consume what the raw read consumes, also on a reader obtained by `split` (the offset stays relative to the
//!   SECTION), and every other operation is unaffected by the relocation (C18: "every address and cross-section
//!   offset, and nothing else").
//! Discharges on real code what the Verus batch `relocate` assumes for the inherited default reads (R-STUB) and what
//! it can only pin syntactically (offset ids, `to_slice`).
//! State space: arbitrary window [s, s+n) of a fully symbolic 16-byte section, one operation with arbitrary
//! arguments; the operations are spread over several harnesses to keep each one small.  bounded(16 bytes).
use crate::eslice::{any_endian, any_window, choose, L};
use gimli::{EndianSlice, Endianity, Error, Format, Reader, ReaderOffsetId, Relocate, RelocateReader, Result, RunTimeEndian};
use std::borrow::Cow;

type S<'a> = EndianSlice<'a, RunTimeEndian>;
type RR<'a, T> = RelocateReader<S<'a>, T>;

pub trait Rel: Relocate<usize> + core::fmt::Debug + Clone + Copy {
    fn any() -> Self;
}

#[derive(Debug, Clone, Copy)]
struct Identity;
impl Relocate<usize> for Identity {
    fn relocate_address(&self, _offset: usize, value: u64) -> Result<u64> {
        Ok(value)
    }
    fn relocate_offset(&self, _offset: usize, value: usize) -> Result<usize> {
        Ok(value)
    }
}
impl Rel for Identity {
    fn any() -> Self {
        Identity
    }
}

/// value + k + offset (offsets: one more), except at section offset `bad`, where relocation fails
#[derive(Debug, Clone, Copy)]
struct AddK {
    k: u64,
    bad: usize,
}
impl Relocate<usize> for AddK {
    fn relocate_address(&self, offset: usize, value: u64) -> Result<u64> {
        if offset == self.bad {
            return Err(Error::UnsupportedOffset);
        }
        Ok(value.wrapping_add(self.k).wrapping_add(offset as u64))
    }
    fn relocate_offset(&self, offset: usize, value: usize) -> Result<usize> {
        if offset == self.bad {
            return Err(Error::UnsupportedOffset);
        }
        Ok(value.wrapping_add(self.k as usize).wrapping_add(offset).wrapping_add(1))
    }
}
impl Rel for AddK {
    fn any() -> Self {
        AddK { k: kani::any(), bad: kani::any() }
    }
}

/// a relocating reader positioned on the window [s, s+n) of `base` (its section)
fn reloc_at<'a, T: Rel>(base: S<'a>, rel: T, s: usize, n: usize) -> RR<'a, T> {
    let mut rr = RelocateReader::new(base, rel);
    rr.skip(s).unwrap();
    rr.truncate(n).unwrap();
    rr
}

/// the relocating reader's window is exactly the bare reader's window (same memory)
fn same<'a, T: Rel>(rr: &RR<'a, T>, m: &S<'a>) {
    assert!(rr.inner().slice().as_ptr() == m.slice().as_ptr());
    assert!(rr.inner().len() == m.len());
    assert!(rr.len() == m.len());
    assert!(rr.is_empty() == m.is_empty());
    assert!(rr.endian() == m.endian());
    assert!(rr.offset_id() == m.offset_id());
}

// ---- the non-relocating reads: one of them, on both readers; results (values, errors with their offset ids) equal
macro_rules! both {
    ($name:ident, |$r:ident| $e:expr) => {
        fn $name<'a, T: Rel>(rr: &mut RR<'a, T>, m: &mut S<'a>) {
            let a = { let $r = &mut *rr; $e };
            let b = { let $r = &mut *m; $e };
            assert!(a == b);
        }
    };
}
both!(p_u8, |r| r.read_u8());
both!(p_i8, |r| r.read_i8());
both!(p_u16, |r| r.read_u16());
both!(p_i16, |r| r.read_i16());
both!(p_u32, |r| r.read_u32());
both!(p_i32, |r| r.read_i32());
both!(p_u64, |r| r.read_u64());
both!(p_i64, |r| r.read_i64());
// word-sized fields that are NOT relocatable (lengths), and the other default methods built on the integer reads
both!(p_word32, |r| r.read_word(Format::Dwarf32));
both!(p_word64, |r| r.read_word(Format::Dwarf64));
both!(p_len32, |r| r.read_length(Format::Dwarf32));
both!(p_len64, |r| r.read_length(Format::Dwarf64));
both!(p_initial_length, |r| r.read_initial_length());
both!(p_address_size, |r| r.read_address_size());
both!(p_uleb, |r| r.read_uleb128());
both!(p_sleb, |r| r.read_sleb128());
both!(p_uleb16, |r| r.read_uleb128_u16());
both!(p_uleb32, |r| r.read_uleb128_u32());
both!(p_skip_leb, |r| r.skip_leb128());
fn p_uint<'a, T: Rel>(rr: &mut RR<'a, T>, m: &mut S<'a>) {
    let k: usize = kani::any();
    kani::assume(1 <= k && k <= 8);
    assert!(rr.read_uint(k) == m.read_uint(k));
}

// ---- cursor / view operations
fn c_skip<'a, T: Rel>(rr: &mut RR<'a, T>, m: &mut S<'a>) {
    let arg: usize = kani::any();
    assert!(rr.skip(arg) == m.skip(arg));
}
fn c_truncate<'a, T: Rel>(rr: &mut RR<'a, T>, m: &mut S<'a>) {
    let arg: usize = kani::any();
    assert!(rr.truncate(arg) == m.truncate(arg));
}
fn c_split<'a, T: Rel>(rr: &mut RR<'a, T>, m: &mut S<'a>) {
    let arg: usize = kani::any();
    match (rr.split(arg), m.split(arg)) {
        (Ok(a), Ok(b)) => same(&a, &b),
        (Err(a), Err(b)) => assert!(a == b),
        _ => assert!(false),
    }
}
fn c_find<'a, T: Rel>(rr: &mut RR<'a, T>, m: &mut S<'a>) {
    let byte: u8 = kani::any();
    assert!(rr.find(byte) == Reader::find(m, byte));
}
fn c_lookup<'a, T: Rel>(rr: &mut RR<'a, T>, m: &mut S<'a>) {
    let id = ReaderOffsetId(kani::any());
    assert!(rr.lookup_offset_id(id) == m.lookup_offset_id(id));
    assert!(rr.lookup_offset_id(m.offset_id()) == Some(0));
}
fn c_read_slice<'a, T: Rel>(rr: &mut RR<'a, T>, m: &mut S<'a>) {
    let k: usize = kani::any();
    kani::assume(k <= 9);
    let mut b1 = [0u8; 9];
    let mut b2 = [0u8; 9];
    assert!(rr.read_slice(&mut b1[..k]) == m.read_slice(&mut b2[..k]));
    assert!(b1 == b2);
}
fn c_null_terminated<'a, T: Rel>(rr: &mut RR<'a, T>, m: &mut S<'a>) {
    match (rr.read_null_terminated_slice(), m.read_null_terminated_slice()) {
        (Ok(a), Ok(b)) => same(&a, &b),
        (Err(a), Err(b)) => assert!(a == b),
        _ => assert!(false),
    }
}
fn c_to_slice<'a, T: Rel>(rr: &mut RR<'a, T>, m: &mut S<'a>) {
    match (rr.to_slice(), m.to_slice()) {
        (Ok(Cow::Borrowed(a)), Ok(Cow::Borrowed(b))) => assert!(a.as_ptr() == b.as_ptr() && a.len() == b.len()),
        _ => assert!(false),
    }
}
fn c_clone<'a, T: Rel>(rr: &mut RR<'a, T>, m: &mut S<'a>) {
    let c = rr.clone();
    let mc = *m;
    same(&c, m);
    let arg: usize = kani::any();
    assert!(rr.skip(arg) == m.skip(arg));
    // the clone is independent of the original
    same(&c, &mc);
}
fn c_empty<'a, T: Rel>(rr: &mut RR<'a, T>, m: &mut S<'a>) {
    rr.empty();
    m.empty();
    assert!(rr.len() == 0 && rr.is_empty());
    assert!(rr.read_u8() == m.read_u8() && rr.skip(1) == m.skip(1) && rr.find(0) == Reader::find(m, 0));
    // (the position is kept: the caller's `same` compares the windows)
}

macro_rules! step {
    ($name:ident, $rel:ty, $($f:ident),+) => { step!($name, $rel, L, 20; $($f),+); };
    ($name:ident, $rel:ty, $maxwin:expr, $unwind:expr; $($f:ident),+) => {
        #[kani::proof]
        #[kani::unwind($unwind)]
        fn $name() {
            let data: [u8; L] = kani::any();
            let base = EndianSlice::new(&data[..], any_endian());
            let (s, n) = any_window(L);
            kani::assume(n <= $maxwin);
            let mut rr = reloc_at(base, <$rel>::any(), s, n);
            let mut m = base.range(s..s + n);
            same(&rr, &m);
            choose!((&mut rr, &mut m), $($f),+);
            same(&rr, &m);
        }
    };
}
// `choose!` passes ONE expression: adapters taking the pair
macro_rules! pair {
    ($($g:ident = $f:ident),+) => { $( fn $g<'a, T: Rel>(p: (&mut RR<'a, T>, &mut S<'a>)) { $f(p.0, p.1) } )+ };
}
pair!(q_u8 = p_u8, q_i8 = p_i8, q_u16 = p_u16, q_i16 = p_i16, q_u32 = p_u32, q_i32 = p_i32, q_u64 = p_u64, q_i64 = p_i64,
      q_word32 = p_word32, q_word64 = p_word64, q_len32 = p_len32, q_len64 = p_len64, q_initial_length = p_initial_length,
      q_address_size = p_address_size, q_uleb = p_uleb, q_sleb = p_sleb, q_uleb16 = p_uleb16, q_uleb32 = p_uleb32,
      q_skip_leb = p_skip_leb, q_uint = p_uint, d_skip = c_skip, d_truncate = c_truncate, d_split = c_split, d_find = c_find,
      d_lookup = c_lookup, d_read_slice = c_read_slice, d_null_terminated = c_null_terminated, d_to_slice = c_to_slice,
      d_clone = c_clone, d_empty = c_empty);

macro_rules! steps {
    ($rel:ty, $ints_small:ident, $ints_large:ident, $words:ident, $misc:ident, $lebs:ident, $cursor:ident, $views:ident,
     $find:ident, $read_slice:ident, $null_terminated:ident) => {
        step!($ints_small, $rel, q_u8, q_i8, q_u16, q_i16);
        step!($ints_large, $rel, q_u32, q_i32, q_u64, q_i64);
        step!($words, $rel, q_word32, q_word64, q_len32, q_len64);
        step!($misc, $rel, q_initial_length, q_address_size, q_uint);
        // LEB128 reads are trait-default code over `read_u8` (checked above); the loop-free `read_uleb128_u16` stands for them
        // (the looping ones cost > 10 CPU-minutes each through two readers and add nothing about delegation; values: K-LEB)
        step!($lebs, $rel, q_uleb16);
        step!($cursor, $rel, d_skip, d_truncate, d_split);
        step!($views, $rel, d_lookup, d_to_slice, d_clone, d_empty);
        step!($find, $rel, d_find);
        step!($read_slice, $rel, d_read_slice);
        step!($null_terminated, $rel, d_null_terminated);
    };
}
steps!(Identity, k_reloc_identity_ints_small, k_reloc_identity_ints_large, k_reloc_identity_words, k_reloc_identity_misc,
       k_reloc_identity_uleb16, k_reloc_identity_cursor, k_reloc_identity_views, k_reloc_identity_find,
       k_reloc_identity_read_slice, k_reloc_identity_null_terminated);
steps!(AddK, k_reloc_addk_ints_small, k_reloc_addk_ints_large, k_reloc_addk_words, k_reloc_addk_misc,
       k_reloc_addk_uleb16, k_reloc_addk_cursor, k_reloc_addk_views, k_reloc_addk_find,
       k_reloc_addk_read_slice, k_reloc_addk_null_terminated);

/// `offset_from` between relocating readers: against the section and against an arbitrary enclosing window
#[kani::proof]
#[kani::unwind(20)]
fn k_reloc_offset_from() {
    let data: [u8; L] = kani::any();
    let base = EndianSlice::new(&data[..], any_endian());
    let (s, n) = any_window(L);
    let rel = AddK::any();
    let rr = reloc_at(base, rel, s, n);
    let sec = RelocateReader::new(base, rel);
    assert!(rr.offset_from(&sec) == s);
    let a: usize = kani::any();
    kani::assume(a <= s);
    let w = reloc_at(base, rel, a, L - a);
    assert!(rr.offset_from(&w) == s - a);
}

// ---- the three relocating reads
macro_rules! relocating {
    ($name:ident, $rel:ty, $split:expr, |$r:ident, $size:ident, $fmt:ident| $read:expr, |$t:ident, $pos:ident, $raw:ident| $relocate:expr) => {
        #[kani::proof]
        #[kani::unwind(20)]
        fn $name() {
            let data: [u8; L] = kani::any();
            let base = EndianSlice::new(&data[..], any_endian());
            let (s, n) = any_window(L);
            let rel = <$rel>::any();
            let mut rr = reloc_at(base, rel, s, n);
            let mut m = base.range(s..s + n);
            if $split {
                // continue on the head or on the tail of a split: `split` must keep `section`, i.e. the offset handed
                // to the relocation stays relative to the SECTION, not to the split-off reader
                let cut: usize = kani::any();
                kani::assume(cut <= n);
                let head = rr.split(cut).unwrap();
                let mhead = m.split(cut).unwrap();
                if kani::any() {
                    rr = head;
                    m = mhead;
                }
            }
            // section offset of the field about to be read
            let $pos = Reader::offset_from(&m, &base);
            let $size: u8 = kani::any();
            let $fmt = if kani::any() { Format::Dwarf32 } else { Format::Dwarf64 };
            let got = { let $r = &mut rr; $read };
            let raw = { let $r = &mut m; $read };
            let $t = rel;
            match raw {
                // = relocate(section offset, raw), including a failing relocation
                Ok($raw) => assert!(got == $relocate),
                // the inner read's error, unchanged
                Err(e) => assert!(got == Err(e)),
            }
            // consumed exactly what the raw read consumed
            same(&rr, &m);
        }
    };
}
relocating!(k_reloc_identity_read_address, Identity, false, |r, size, _f| r.read_address(size), |_t, _pos, raw| Ok(raw));
relocating!(k_reloc_identity_read_sized_offset, Identity, false, |r, size, _f| r.read_sized_offset(size), |_t, _pos, raw| Ok(raw));
relocating!(k_reloc_identity_read_offset, Identity, false, |r, _size, f| r.read_offset(f), |_t, _pos, raw| Ok(raw));
relocating!(k_reloc_addk_read_address, AddK, false, |r, size, _f| r.read_address(size),
            |t, pos, raw| if pos == t.bad { Err(Error::UnsupportedOffset) } else { Ok(raw.wrapping_add(t.k).wrapping_add(pos as u64)) });
relocating!(k_reloc_addk_read_sized_offset, AddK, false, |r, size, _f| r.read_sized_offset(size),
            |t, pos, raw| if pos == t.bad { Err(Error::UnsupportedOffset) } else { Ok(raw.wrapping_add(t.k as usize).wrapping_add(pos).wrapping_add(1)) });
relocating!(k_reloc_addk_read_offset, AddK, false, |r, _size, f| r.read_offset(f),
            |t, pos, raw| if pos == t.bad { Err(Error::UnsupportedOffset) } else { Ok(raw.wrapping_add(t.k as usize).wrapping_add(pos).wrapping_add(1)) });
// after a split (head or tail): 4-byte fields only, to keep the harness small
relocating!(k_reloc_addk_split_read_address, AddK, true, |r, _size, _f| r.read_address(4),
            |t, pos, raw| if pos == t.bad { Err(Error::UnsupportedOffset) } else { Ok(raw.wrapping_add(t.k).wrapping_add(pos as u64)) });
relocating!(k_reloc_addk_split_read_offset, AddK, true, |r, _size, _f| r.read_offset(Format::Dwarf32),
            |t, pos, raw| if pos == t.bad { Err(Error::UnsupportedOffset) } else { Ok(raw.wrapping_add(t.k as usize).wrapping_add(pos).wrapping_add(1)) });
relocating!(k_reloc_addk_split_read_sized_offset, AddK, true, |r, _size, _f| r.read_sized_offset(4),
            |t, pos, raw| if pos == t.bad { Err(Error::UnsupportedOffset) } else { Ok(raw.wrapping_add(t.k as usize).wrapping_add(pos).wrapping_add(1)) });

/// after `empty()` the three relocating reads fail exactly like the bare reader (UnexpectedEof naming the position) and
/// do not panic in `offset_from` (regression harness for the fixed finding, native/src/bin/f_relocate_1.rs)
#[kani::proof]
#[kani::unwind(20)]
fn k_reloc_empty_then_read() {
    let data: [u8; L] = kani::any();
    let base = EndianSlice::new(&data[..], any_endian());
    let (s, n) = any_window(L);
    let mut rr = reloc_at(base, Identity, s, n);
    let mut m = base.range(s..s + n);
    rr.empty();
    m.empty();
    let size: u8 = kani::any();
    same(&rr, &m);
    if kani::any() {
        let a = rr.read_address(size);
        assert!(a.is_err() && a == m.read_address(size));
    } else if kani::any() {
        let a = rr.read_sized_offset(size);
        assert!(a.is_err() && a == m.read_sized_offset(size));
    } else {
        let a = rr.read_offset(Format::Dwarf32);
        assert!(a.is_err() && a == m.read_offset(Format::Dwarf32));
    }
    same(&rr, &m);
}
