//! K-RELOC (C18, C10): `RelocateReader` over the borrowed reader.
//!
//! * identity relocation: for ONE arbitrary operation with arbitrary arguments from an arbitrary window state, the
//!   relocating reader returns exactly what the bare `EndianSlice` returns (results incl. errors and their offset
//!   ids, and the remaining window) — "identity-relocating readers give identical results" (C10);
//! * a relocation that depends on everything it is given (`value + k + offset`, failing at one chosen offset):
//!   `read_address` / `read_offset` / `read_sized_offset` return `relocate(section offset, raw)` for every size
//!   and consume what the raw read consumes, also on a reader obtained by `split` (the offset stays relative to the
//!   SECTION), and every other operation is unaffected by the relocation (C18: "every address and cross-section
//!   offset, and nothing else").
//! Discharges on real code what the Verus batch `relocate` assumes for the inherited default reads (R-STUB).
//! Bounded: section of 16 symbolic bytes.
use crate::eslice::{any_endian, any_window, L};
use gimli::{EndianSlice, Endianity, Error, Format, Reader, ReaderOffsetId, Relocate, RelocateReader, Result, RunTimeEndian};
use std::borrow::Cow;

type S<'a> = EndianSlice<'a, RunTimeEndian>;

#[derive(Debug, Clone, Copy)]
struct Identity;
impl Relocate<usize> for Identity {
    fn relocate_address(&self, _offset: usize, value: u64) -> Result<u64> {
        Ok(value)
    }
    fn relocate_offset(&self, _offset: usize, value: usize) -> Result<usize> {
        Ok(value)
    }
}

/// value + k + offset, except at section offset `bad`, where relocation fails
#[derive(Debug, Clone, Copy)]
struct AddK {
    k: u64,
    bad: usize,
}
impl Relocate<usize> for AddK {
    fn relocate_address(&self, offset: usize, value: u64) -> Result<u64> {
        if offset == self.bad {
            return Err(Error::UnsupportedOffset);
        }
        Ok(value.wrapping_add(self.k).wrapping_add(offset as u64))
    }
    fn relocate_offset(&self, offset: usize, value: usize) -> Result<usize> {
        if offset == self.bad {
            return Err(Error::UnsupportedOffset);
        }
        Ok(value.wrapping_add(self.k as usize).wrapping_add(offset).wrapping_add(1))
    }
}

/// a relocating reader positioned on the window [s, s+n) of `base` (its section)
fn reloc_at<'a, T: Relocate<usize> + core::fmt::Debug + Clone>(base: S<'a>, rel: T, s: usize, n: usize) -> RelocateReader<S<'a>, T> {
    let mut rr = RelocateReader::new(base, rel);
    rr.skip(s).unwrap();
    rr.truncate(n).unwrap();
    rr
}

/// the relocating reader's window is exactly the bare reader's window (same memory)
fn same<'a, T: Relocate<usize> + core::fmt::Debug + Clone>(rr: &RelocateReader<S<'a>, T>, m: &S<'a>) {
    assert!(rr.inner().slice().as_ptr() == m.slice().as_ptr());
    assert!(rr.inner().len() == m.len());
    assert!(rr.len() == m.len());
    assert!(rr.is_empty() == m.is_empty());
    assert!(rr.endian() == m.endian());
    assert!(rr.offset_id() == m.offset_id());
}

/// the non-relocating operations that hand back integers: one of them, on both readers
fn plain_read<'a, T: Relocate<usize> + core::fmt::Debug + Clone>(op: u8, rr: &mut RelocateReader<S<'a>, T>, m: &mut S<'a>) {
    match op {
        0 => assert!(rr.read_u8() == m.read_u8()),
        1 => assert!(rr.read_i8() == m.read_i8()),
        2 => assert!(rr.read_u16() == m.read_u16()),
        3 => assert!(rr.read_i16() == m.read_i16()),
        4 => assert!(rr.read_u32() == m.read_u32()),
        5 => assert!(rr.read_i32() == m.read_i32()),
        6 => assert!(rr.read_u64() == m.read_u64()),
        7 => assert!(rr.read_i64() == m.read_i64()),
        8 => {
            let k: usize = kani::any();
            kani::assume(1 <= k && k <= 8);
            assert!(rr.read_uint(k) == m.read_uint(k));
        }
        // word-sized fields that are NOT relocatable: lengths
        9 => assert!(rr.read_word(Format::Dwarf32) == m.read_word(Format::Dwarf32)),
        10 => assert!(rr.read_word(Format::Dwarf64) == m.read_word(Format::Dwarf64)),
        11 => assert!(rr.read_length(Format::Dwarf32) == m.read_length(Format::Dwarf32)),
        12 => assert!(rr.read_length(Format::Dwarf64) == m.read_length(Format::Dwarf64)),
        13 => assert!(rr.read_initial_length() == m.read_initial_length()),
        14 => assert!(rr.read_address_size() == m.read_address_size()),
        15 => assert!(rr.read_uleb128() == m.read_uleb128()),
        16 => assert!(rr.read_sleb128() == m.read_sleb128()),
        17 => assert!(rr.read_uleb128_u16() == m.read_uleb128_u16()),
        18 => assert!(rr.read_uleb128_u32() == m.read_uleb128_u32()),
        _ => assert!(rr.skip_leb128() == m.skip_leb128()),
    }
}

/// the cursor / view operations: one of them, on both readers
fn cursor_op<'a, T: Relocate<usize> + core::fmt::Debug + Clone>(op: u8, rr: &mut RelocateReader<S<'a>, T>, m: &mut S<'a>, base: S<'a>, rel: T) {
    let arg: usize = kani::any();
    match op {
        0 => assert!(rr.skip(arg) == m.skip(arg)),
        1 => assert!(rr.truncate(arg) == m.truncate(arg)),
        2 => {
            let a = rr.split(arg);
            let b = m.split(arg);
            match (a, b) {
                (Ok(a), Ok(b)) => same(&a, &b),
                (Err(a), Err(b)) => assert!(a == b),
                _ => assert!(false),
            }
        }
        3 => assert!(rr.find(arg as u8) == Reader::find(m, arg as u8)),
        4 => {
            // offset_from: against the section and against an arbitrary enclosing window
            let sec = RelocateReader::new(base, rel.clone());
            assert!(rr.offset_from(&sec) == Reader::offset_from(m, &base));
            let off = Reader::offset_from(m, &base);
            kani::assume(arg <= off);
            let mut w = RelocateReader::new(base, rel);
            w.skip(arg).unwrap();
            assert!(rr.offset_from(&w) == off - arg);
        }
        5 => {
            let id = ReaderOffsetId(kani::any());
            assert!(rr.lookup_offset_id(id) == m.lookup_offset_id(id));
            assert!(rr.lookup_offset_id(m.offset_id()) == Some(0));
        }
        6 => {
            kani::assume(arg <= 9);
            let mut b1 = [0u8; 9];
            let mut b2 = [0u8; 9];
            assert!(rr.read_slice(&mut b1[..arg]) == m.read_slice(&mut b2[..arg]));
            assert!(b1 == b2);
        }
        7 => {
            let a = rr.read_null_terminated_slice();
            let b = m.read_null_terminated_slice();
            match (a, b) {
                (Ok(a), Ok(b)) => same(&a, &b),
                (Err(a), Err(b)) => assert!(a == b),
                _ => assert!(false),
            }
        }
        8 => match (rr.to_slice(), m.to_slice()) {
            (Ok(Cow::Borrowed(a)), Ok(Cow::Borrowed(b))) => assert!(a.as_ptr() == b.as_ptr() && a.len() == b.len()),
            _ => assert!(false),
        },
        9 => {
            let c = rr.clone();
            same(&c, m);
            rr.skip(arg).ok();
            m.skip(arg).ok();
            // the clone is independent of the original
            assert!(c.len() >= rr.len());
        }
        _ => {
            rr.empty();
            m.empty();
            assert!(rr.len() == 0 && rr.is_empty());
            assert!(rr.read_u8().is_err());
            return;
        }
    }
}

#[kani::proof]
#[kani::unwind(20)]
fn k_reloc_identity_plain_reads() {
    let data: [u8; L] = kani::any();
    let base = EndianSlice::new(&data[..], any_endian());
    let (s, n) = any_window(L);
    let mut rr = reloc_at(base, Identity, s, n);
    let mut m = base.range(s..s + n);
    same(&rr, &m);
    plain_read(kani::any(), &mut rr, &mut m);
    same(&rr, &m);
}

#[kani::proof]
#[kani::unwind(20)]
fn k_reloc_identity_cursor() {
    let data: [u8; L] = kani::any();
    let base = EndianSlice::new(&data[..], any_endian());
    let (s, n) = any_window(L);
    let mut rr = reloc_at(base, Identity, s, n);
    let mut m = base.range(s..s + n);
    same(&rr, &m);
    let op: u8 = kani::any();
    cursor_op(op, &mut rr, &mut m, base, Identity);
    if op <= 9 {
        same(&rr, &m);
    }
}

/// the three relocating reads, every size (valid and invalid), identity relocation == bare reader
#[kani::proof]
#[kani::unwind(20)]
fn k_reloc_identity_relocating_reads() {
    let data: [u8; L] = kani::any();
    let base = EndianSlice::new(&data[..], any_endian());
    let (s, n) = any_window(L);
    let mut rr = reloc_at(base, Identity, s, n);
    let mut m = base.range(s..s + n);
    let size: u8 = kani::any();
    let op: u8 = kani::any();
    match op {
        0 => assert!(rr.read_address(size) == m.read_address(size)),
        1 => assert!(rr.read_sized_offset(size) == m.read_sized_offset(size)),
        2 => assert!(rr.read_offset(Format::Dwarf32) == m.read_offset(Format::Dwarf32)),
        _ => assert!(rr.read_offset(Format::Dwarf64) == m.read_offset(Format::Dwarf64)),
    }
    same(&rr, &m);
}

/// value+k+offset relocation: the three reads return relocate(SECTION offset, raw), consume what the raw read consumes
/// (also when the relocation itself fails), on the reader and on a reader split off it
#[kani::proof]
#[kani::unwind(20)]
fn k_reloc_addk_relocating_reads() {
    let data: [u8; L] = kani::any();
    let base = EndianSlice::new(&data[..], any_endian());
    let (s, n) = any_window(L);
    let rel = AddK { k: kani::any(), bad: kani::any() };
    let mut rr = reloc_at(base, rel, s, n);
    let mut m = base.range(s..s + n);
    // optionally continue on the head / on the tail of a split: `section` must be kept by `split`
    let cut: usize = kani::any();
    let mode: u8 = kani::any();
    if mode < 2 {
        kani::assume(cut <= n);
        let head = rr.split(cut).unwrap();
        let mhead = m.split(cut).unwrap();
        if mode == 0 {
            rr = head;
            m = mhead;
        }
    }
    let pos = Reader::offset_from(&m, &base);
    let size: u8 = kani::any();
    let op: u8 = kani::any();
    match op {
        0 => {
            let got = rr.read_address(size);
            match m.read_address(size) {
                Ok(raw) => assert!(got == rel.relocate_address(pos, raw)),
                Err(e) => assert!(got == Err(e)),
            }
            if pos != rel.bad {
                if let Ok(v) = got {
                    // spelled out: raw + k + section offset
                    let mut mm = base.range(pos..L);
                    assert!(v == mm.read_address(size).unwrap().wrapping_add(rel.k).wrapping_add(pos as u64));
                }
            }
        }
        1 => {
            let got = rr.read_sized_offset(size);
            match m.read_sized_offset(size) {
                Ok(raw) => assert!(got == rel.relocate_offset(pos, raw)),
                Err(e) => assert!(got == Err(e)),
            }
        }
        _ => {
            let f = if op == 2 { Format::Dwarf32 } else { Format::Dwarf64 };
            let got = rr.read_offset(f);
            match m.read_offset(f) {
                Ok(raw) => {
                    assert!(got == rel.relocate_offset(pos, raw));
                    if pos == rel.bad {
                        assert!(got == Err(Error::UnsupportedOffset));
                    }
                }
                Err(e) => assert!(got == Err(e)),
            }
        }
    }
    same(&rr, &m);
}

/// value+k+offset relocation: nothing but the three reads is affected
#[kani::proof]
#[kani::unwind(20)]
fn k_reloc_addk_plain_reads() {
    let data: [u8; L] = kani::any();
    let base = EndianSlice::new(&data[..], any_endian());
    let (s, n) = any_window(L);
    let rel = AddK { k: kani::any(), bad: kani::any() };
    let mut rr = reloc_at(base, rel, s, n);
    let mut m = base.range(s..s + n);
    plain_read(kani::any(), &mut rr, &mut m);
    same(&rr, &m);
}

#[kani::proof]
#[kani::unwind(20)]
fn k_reloc_addk_cursor() {
    let data: [u8; L] = kani::any();
    let base = EndianSlice::new(&data[..], any_endian());
    let (s, n) = any_window(L);
    let rel = AddK { k: kani::any(), bad: kani::any() };
    let mut rr = reloc_at(base, rel, s, n);
    let mut m = base.range(s..s + n);
    let op: u8 = kani::any();
    cursor_op(op, &mut rr, &mut m, base, rel);
    if op <= 9 {
        same(&rr, &m);
    }
}

/// EXPECTED-FAIL on the pinned tree (finding, native/src/bin/f_relocate_1.rs): after `empty()` the three relocating
/// reads must fail like the bare reader does (UnexpectedEof); they panic in `EndianSlice::offset_from` instead.
#[kani::proof]
#[kani::unwind(20)]
fn k_reloc_empty_then_read() {
    let data: [u8; L] = kani::any();
    let base = EndianSlice::new(&data[..], any_endian());
    let (s, n) = any_window(L);
    let mut rr = reloc_at(base, Identity, s, n);
    let mut m = base.range(s..s + n);
    rr.empty();
    m.empty();
    let size: u8 = kani::any();
    match kani::any::<u8>() {
        0 => assert!(rr.read_address(size).is_err() && m.read_address(size).is_err()),
        1 => assert!(rr.read_sized_offset(size).is_err() && m.read_sized_offset(size).is_err()),
        _ => assert!(rr.read_offset(Format::Dwarf32).is_err() && m.read_offset(Format::Dwarf32).is_err()),
    }
}
