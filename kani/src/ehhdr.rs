//! K-EHHDR (C05): the `.eh_frame_hdr` binary search against a linear scan, through the public API
//! `EhFrameHdr::new(..).parse(..)?.table()?.lookup(address, &bases)`.
//!
//! The Verus batch `cfi_lookup` proves the same sentence for every table size from the loop invariant of
//! `EhHdrTable::lookup` ([C05:lookup-result], [C05:lookup-total]), against the contract layer of `Reader`; this group
//! re-checks it on the real `EndianSlice` reader with CBMC for small tables - nothing assumed about the reader layer,
//! header parse included - and yields concrete counterexamples when the halving arithmetic is wrong.
//!
//! State space per harness: header with `udata4` encodings and absolute pointers, byte order fixed at the type level,
//! exactly N rows (2..=5) of (initial location, FDE address) with fully symbolic 32-bit values, initial locations
//! strictly increasing (`scan`) or non-decreasing (`dups`), symbolic `eh_frame_ptr`, symbolic 64-bit lookup address.
//! bounded(N rows).  (A symbolic row count / run-time byte order makes CBMC's symbolic execution walk every pointer
//! format for every read - the encoding bytes are then no longer constants - and does not finish in 25 minutes.)
use gimli::{BaseAddresses, BigEndian, EhFrameHdr, EndianSlice, Endianity, LittleEndian, Pointer};

const HDR: usize = 12;

fn put_u32(buf: &mut [u8], at: usize, v: u32, big: bool) {
    let b = if big { v.to_be_bytes() } else { v.to_le_bytes() };
    buf[at] = b[0];
    buf[at + 1] = b[1];
    buf[at + 2] = b[2];
    buf[at + 3] = b[3];
}

/// last row whose key is <= address, row 0 if there is none: what an exhaustive scan answers
fn scan<const N: usize>(keys: &[u32; N], address: u64) -> usize {
    let mut j = 0;
    let mut i = 0;
    while i < N {
        if u64::from(keys[i]) <= address {
            j = i;
        }
        i += 1;
    }
    j
}

/// builds the section, runs the lookup; returns (Some(direct pointer) or None, keys, fdes, address)
fn lookup_in_symbolic_table<E: Endianity, const N: usize, const L: usize>(endian: E, strict: bool) -> (Option<u64>, [u32; N], [u32; N], u64) {
    let big = endian.is_big_endian();
    let keys: [u32; N] = kani::any();
    let fdes: [u32; N] = kani::any();
    let mut i = 1;
    while i < N {
        if strict {
            kani::assume(keys[i - 1] < keys[i]);
        } else {
            kani::assume(keys[i - 1] <= keys[i]);
        }
        i += 1;
    }
    let mut buf = [0u8; L];
    buf[0] = 1; // version
    buf[1] = 0x03; // eh_frame_ptr_enc: DW_EH_PE_udata4 | DW_EH_PE_absptr
    buf[2] = 0x03; // fde_count_enc
    buf[3] = 0x03; // table_enc
    put_u32(&mut buf, 4, kani::any(), big); // eh_frame_ptr
    put_u32(&mut buf, 8, N as u32, big); // fde_count
    let mut i = 0;
    while i < N {
        put_u32(&mut buf, HDR + 8 * i, keys[i], big);
        put_u32(&mut buf, HDR + 8 * i + 4, fdes[i], big);
        i += 1;
    }
    let address: u64 = kani::any();
    let bases = BaseAddresses::default();
    // (no `unwrap()`: its panic path formats the error with `Debug`, which drags the fmt machinery into the model)
    let hdr = match EhFrameHdr::new(&buf[..], endian).parse(&bases, 8) {
        Ok(h) => h,
        Err(_) => panic!("well-formed header rejected"),
    };
    let table = match hdr.table() {
        Some(t) => t,
        None => panic!("no table although fde_count != 0"),
    };
    let res = match table.lookup(address, &bases) {
        Ok(Pointer::Direct(p)) => Some(p),
        _ => None,
    };
    (res, keys, fdes, address)
}

/// strictly increasing initial locations: the search succeeds and returns exactly the FDE address of the row the scan finds
fn check_scan<E: Endianity, const N: usize, const L: usize>(endian: E) {
    let (res, keys, fdes, address) = lookup_in_symbolic_table::<E, N, L>(endian, true);
    let j = scan(&keys, address);
    assert!(res == Some(u64::from(fdes[j])));
}

/// non-decreasing initial locations (duplicates allowed): the search succeeds and returns the FDE address of a row with the
/// same initial location as the row the scan finds (a hit on `Equal` stops at any of the duplicates)
fn check_dups<E: Endianity, const N: usize, const L: usize>(endian: E) {
    let (res, keys, fdes, address) = lookup_in_symbolic_table::<E, N, L>(endian, false);
    let j = scan(&keys, address);
    let p = match res {
        Some(p) => p,
        None => panic!("lookup failed on a complete sorted table"),
    };
    let mut ok = false;
    let mut i = 0;
    while i < N {
        if keys[i] == keys[j] && (u64::from(keys[j]) <= address || i == 0) && p == u64::from(fdes[i]) {
            ok = true;
        }
        i += 1;
    }
    assert!(ok);
}

#[kani::proof]
#[kani::unwind(7)]
fn k_ehhdr_lookup_scan_le2() {
    check_scan::<LittleEndian, 2, { HDR + 8 * 2 }>(LittleEndian);
}

#[kani::proof]
#[kani::unwind(7)]
fn k_ehhdr_lookup_scan_le3() {
    check_scan::<LittleEndian, 3, { HDR + 8 * 3 }>(LittleEndian);
}

#[kani::proof]
#[kani::unwind(7)]
fn k_ehhdr_lookup_scan_le4() {
    check_scan::<LittleEndian, 4, { HDR + 8 * 4 }>(LittleEndian);
}

#[kani::proof]
#[kani::unwind(7)]
fn k_ehhdr_lookup_scan_le5() {
    check_scan::<LittleEndian, 5, { HDR + 8 * 5 }>(LittleEndian);
}

#[kani::proof]
#[kani::unwind(7)]
fn k_ehhdr_lookup_scan_be3() {
    check_scan::<BigEndian, 3, { HDR + 8 * 3 }>(BigEndian);
}

#[kani::proof]
#[kani::unwind(7)]
fn k_ehhdr_lookup_dups_le4() {
    check_dups::<LittleEndian, 4, { HDR + 8 * 4 }>(LittleEndian);
}
