//! K-LINEGEN (DESIGN.md 3.2 "Extraction to Kani", 6 C13, C12 "line program re-generation"): the opcode selection of the
//! line-program WRITER, `write::LineProgram::generate_row` (+ `op_advance`, `end_sequence`), checked on its REAL text
//! against a reference READER machine written here from DWARF 5 section 6.2.2 / 6.2.5.  This is the function the Verus batch
//! `wline` leaves NOT DECIDED (its verification condition diverges, see vx/batches/wline.py).
//!
//! The code under test is not reachable through gimli's public API without the IndexMap-backed file tables and the
//! section writer, so it is EXTRACTED: `kani/gen_linegen.py` cuts the items verbatim from /repo/src/write/line.rs into
//! `src/gen/linegen_items.rs` on every run (rules R-DOC, R-CFG, R-DROP, R-FIELDS only, logged in the header of that file; the
//! debug_assert!s stay in and are checked).  Public dependencies (`Encoding`, `LineEncoding`, `write::Address`) are gimli's.
//!
//! WHAT IS ASSERTED (fn `check_row`), for ONE call of `generate_row` from an arbitrary reachable writer state:
//!   the reference machine, started in the state the previous row left it in (registers of `prev_row` at address
//!   base + prev_row.address_offset, discriminator 0, basic_block / prologue_end / epilogue_begin false), executes exactly the
//!   `LineInstruction`s the call pushed and
//!   [rows]   appends exactly ONE row to the matrix, and does so with the LAST instruction,
//!   [row]    that row equals the requested row in EVERY register: address = base + address_offset, op_index, file (register
//!            value, `FileId::raw(version)`), line, column, is_stmt, basic_block, end_sequence = false, prologue_end,
//!            epilogue_begin, isa, discriminator,
//!   [state]  the machine is afterwards in the state that the writer's bookkeeping (`prev_row`) describes - the induction
//!            step that extends the statement from one call to every sequence of calls,
//!   [special] every `Special(op)` has OPCODE_BASE <= op <= 255 (below OPCODE_BASE the byte would be a standard opcode),
//!   [exact]  no step of the reader overflows 64 bits or drives `line` negative (the machine uses checked arithmetic),
//!   [doc]    documented effects on the writer: `row` keeps its values except discriminator = 0 and the three flags false,
//!            `prev_row == row`, `in_sequence`, nothing but pushes happened to `instructions`;
//!   plus Kani's built-in checks on the real text: the four debug_assert!s of generate_row, the two of op_advance, arithmetic
//!   overflow of `special + op_advance * line_range`, `op_advance - op_range`, `address_advance * max_ops + .. - ..`.
//!
//! DOMAIN = the documented preconditions and the invariant of the writer state, nothing else, except where a KNOWN finding of
//! batch wline has to be excluded (each exclusion is one `kani::assume` marked EXCL below):
//!   line_base <= 0 < line_base + line_range                                  (`LineProgram::new` "# Panics")
//!   (maximum_operations_per_instruction, minimum_instruction_length) in {1, 2, 4} x {1, 2, 4}, the configuration grid of the
//!   property text: one harness per pair (constants, so that CBMC sees shifts instead of 64-bit dividers)
//!   both rows: op_index < max_ops (6.2.2), address_offset a multiple of min_inst_len (debug_assert of op_advance; the
//!   previous row went through the same check), (address_offset, op_index) not decreasing ("Panics if the address_offset
//!   decreases"), prev_row after the per-row reset; base + row.address_offset fits 64 bits; file index < usize::MAX
//!   F-wline-1 (`line_range as i8`) was FIXED in /repo (a69c496): line_range is fully symbolic 1..=255 in every registered
//!                   harness; k_linegen_f_range128 (the former finding harness) is kept unregistered.
//!   EXCL F-wline-2: both lines < 2^63  (`line as i64`)
//!   EXCL F-wline-3: address advance < 2^48 (op_advance * line_range overflows from 2^56 on); NOT a CBMC bound: the
//!                   2^48 harnesses cost the same as 2^16 ones.  The grid of the property text (line advance -300..300 x
//!                   operation advance 0..600) lies inside: every line delta in (-2^63, 2^63) and every operation advance
//!                   < 2^48 is covered.
//! Everything else is fully symbolic: version 2..=5, default_is_stmt, base address, every register of both rows.
//! DW_LNS_fixed_advance_pc / DW_LNE_define_file are never emitted (the writer's enum has no such variant).
//! Thorough tier: k_linegen_row_oany_l{1,2,4} with SYMBOLIC max_ops 1..=255, bounded(address advance < 2^8 instructions; with
//! 2^16 the symbolic 64-bit dividers do not finish in 2400 s).
//! NOT covered here: symbolic min_inst_len (values other than 1, 2, 4), `set_address` in
//! mid-sequence (F-wline-4, Verus batch wline), `LineInstruction::write` (bytes; Verus batch wline / K-WPRIM).
//!
//! STAND-IN (an assumption, DESIGN 3.2 "a dependency container may be replaced by a model"): `Vec` -> `sink::Vec` below.
//!
//! SEEDED DEFECTS caught (scratch copy of /repo, see kani/gen_linegen.py): `op_range = (256 - special_base) / line_range`
//! (wrong address for line_range in {3, 9, 27, 81}) fails all nine k_linegen_row_*; `saturating_sub` of the op_index
//! difference in op_advance fails the six k_linegen_row_o{2,4}_* and k_linegen_endseq.
use gimli::write::Address;
use gimli::{Encoding, Format, LineEncoding};

use self::sink::Vec;
/// STAND-IN for `alloc::vec::Vec` in the extracted text (`instructions: Vec<LineInstruction>`): an observer with `push` only.
/// Every pushed instruction is executed by the reference machine at once, in push order - which is what a reader does with
/// the stored list as long as the writer only ever appends to it; any other use of `instructions` by the extracted methods
/// (index, pop, clear, iteration ...) does not compile against this type (driver: exit 2).  Why: with a stored list (real
/// Vec: 16 GB / CBMC out of memory; array model: > 1400 CPU-s for ONE encoding) the position of every instruction depends on
/// which of the eight optional set-register instructions precede it, and the solver enumerates those layouts.
mod sink {
    use super::{LineInstruction, Machine};
    #[derive(Debug, Clone)]
    pub struct Vec<T> {
        pub m: Machine,
        _t: core::marker::PhantomData<T>,
    }
    impl Vec<LineInstruction> {
        pub fn observing(m: Machine) -> Self {
            Vec { m, _t: core::marker::PhantomData }
        }
        pub fn push(&mut self, x: LineInstruction) {
            self.m.exec(x);
        }
    }
}

include!("gen/linegen_items.rs");

// ------------------------------------------------------------------------------------------------ reference reader
/// the line number registers of DWARF 5 section 6.2.2 (table 6.3)
#[derive(Clone, Copy, PartialEq, Eq, Debug)]
struct Regs {
    address: u64,
    op_index: u64,
    file: u64,
    line: u64,
    column: u64,
    is_stmt: bool,
    basic_block: bool,
    end_sequence: bool,
    prologue_end: bool,
    epilogue_begin: bool,
    isa: u64,
    discriminator: u64,
}

/// header fields the machine reads (section 6.2.4)
#[derive(Clone, Copy, Debug)]
struct Hdr {
    version: u16,
    min_inst_len: u8,
    max_ops: u8,
    default_is_stmt: bool,
    line_base: i8,
    line_range: u8,
    opcode_base: u8,
}

#[derive(Clone, Debug)]
pub struct Machine {
    h: Hdr,
    r: Regs,
    /// number of instructions executed
    count: usize,
    /// number of rows appended to the matrix, the last of them, and the index of the instruction that appended it
    rows: u32,
    last: Regs,
    last_at: usize,
    /// false as soon as a step is not exact in 64 bits / line would go negative / the instruction is outside the model
    exact: bool,
    /// every special opcode executed was >= opcode_base
    special_ok: bool,
    /// which opcode kinds were executed (only for the `kani::cover!` vacuity probes)
    saw_special: bool,
    saw_copy: bool,
    saw_advance_pc: bool,
    saw_advance_line: bool,
    saw_const_add_pc: bool,
}

impl Machine {
    /// table 6.4
    fn initial(h: &Hdr) -> Regs {
        Regs {
            address: 0,
            op_index: 0,
            file: 1,
            line: 1,
            column: 0,
            is_stmt: h.default_is_stmt,
            basic_block: false,
            end_sequence: false,
            prologue_end: false,
            epilogue_begin: false,
            isa: 0,
            discriminator: 0,
        }
    }

    fn new(h: Hdr, r: Regs) -> Machine {
        Machine { h, r, count: 0, rows: 0, last: r, last_at: 0, exact: true, special_ok: true,
            saw_special: false, saw_copy: false, saw_advance_pc: false, saw_advance_line: false, saw_const_add_pc: false }
    }

    /// 6.2.5.1 "operation advance":  address += min_inst_len * ((op_index + adv) / max_ops),
    /// op_index = (op_index + adv) % max_ops;  for max_ops == 1:  address += min_inst_len * adv
    fn advance(&mut self, adv: u64) {
        let min_len = self.h.min_inst_len as u64;
        let max_ops = self.h.max_ops as u64;
        let insns = if max_ops == 1 {
            Some(adv)
        } else {
            match self.r.op_index.checked_add(adv) {
                Some(t) => {
                    self.r.op_index = t % max_ops;
                    Some(t / max_ops)
                }
                None => None,
            }
        };
        match insns.and_then(|n| n.checked_mul(min_len)).and_then(|d| self.r.address.checked_add(d)) {
            Some(a) => self.r.address = a,
            None => self.exact = false,
        }
    }

    fn emit(&mut self) {
        self.rows += 1;
        self.last = self.r;
        self.last_at = self.count;
    }

    fn reset_row_flags(&mut self) {
        self.r.discriminator = 0;
        self.r.basic_block = false;
        self.r.prologue_end = false;
        self.r.epilogue_begin = false;
    }

    fn exec(&mut self, ins: LineInstruction) {
        self.step(ins);
        self.count += 1;
    }

    fn step(&mut self, ins: LineInstruction) {
        match ins {
            // 6.2.5.1 special opcodes
            LineInstruction::Special(op) => {
                if op < self.h.opcode_base {
                    self.special_ok = false;
                    self.exact = false;
                    return;
                }
                self.saw_special = true;
                let adj = op - self.h.opcode_base;
                let op_adv = adj / self.h.line_range;
                let line_inc = self.h.line_base as i64 + (adj % self.h.line_range) as i64;
                match self.r.line.checked_add_signed(line_inc) {
                    Some(l) => self.r.line = l,
                    None => self.exact = false,
                }
                self.advance(op_adv as u64);
                self.emit();
                self.reset_row_flags();
            }
            // 6.2.5.2 standard opcodes
            LineInstruction::Copy => {
                self.saw_copy = true;
                self.emit();
                self.reset_row_flags();
            }
            LineInstruction::AdvancePc(u) => {
                self.saw_advance_pc = true;
                self.advance(u)
            }
            LineInstruction::AdvanceLine(s) => {
                self.saw_advance_line = true;
                match self.r.line.checked_add_signed(s) {
                    Some(l) => self.r.line = l,
                    None => self.exact = false,
                }
            }
            LineInstruction::SetFile(f) => self.r.file = f.raw(self.h.version),
            LineInstruction::SetColumn(c) => self.r.column = c,
            LineInstruction::NegateStatement => self.r.is_stmt = !self.r.is_stmt,
            LineInstruction::SetBasicBlock => self.r.basic_block = true,
            // "advances by the amount of special opcode 255": no line change, no row
            LineInstruction::ConstAddPc => {
                self.saw_const_add_pc = true;
                let adj = 255 - self.h.opcode_base;
                self.advance((adj / self.h.line_range) as u64)
            }
            LineInstruction::SetPrologueEnd => self.r.prologue_end = true,
            LineInstruction::SetEpilogueBegin => self.r.epilogue_begin = true,
            LineInstruction::SetIsa(i) => self.r.isa = i,
            // 6.2.5.3 extended opcodes
            LineInstruction::EndSequence => {
                self.r.end_sequence = true;
                self.emit();
                self.r = Machine::initial(&self.h);
            }
            LineInstruction::SetAddress(Address::Constant(a)) => {
                self.r.address = a;
                self.r.op_index = 0;
            }
            LineInstruction::SetAddress(Address::Symbol { .. }) => self.exact = false,
            LineInstruction::SetDiscriminator(d) => self.r.discriminator = d,
        }
    }
}

// ------------------------------------------------------------------------------------------------ symbolic inputs
/// the most instructions one generate_row can push: 4 (per-row fields) + 4 (sticky fields) + advance_line + const_add_pc |
/// advance_pc + special | copy
const MAX_PUSHED: usize = 11;

fn any_row() -> LineRow {
    LineRow {
        address_offset: kani::any(),
        op_index: kani::any(),
        file: FileId::new(kani::any()),
        line: kani::any(),
        column: kani::any(),
        discriminator: kani::any(),
        is_statement: kani::any(),
        basic_block: kani::any(),
        prologue_end: kani::any(),
        epilogue_begin: kani::any(),
        isa: kani::any(),
    }
}

/// registers a reader holds after it has appended `w` at sequence base `base` (file as REGISTER value)
fn regs_of(base: u64, w: &LineRow, version: u16) -> Regs {
    Regs {
        address: base.wrapping_add(w.address_offset),
        op_index: w.op_index,
        file: w.file.raw(version),
        line: w.line,
        column: w.column,
        is_stmt: w.is_statement,
        basic_block: w.basic_block,
        end_sequence: false,
        prologue_end: w.prologue_end,
        epilogue_begin: w.epilogue_begin,
        isa: w.isa,
        discriminator: w.discriminator,
    }
}

/// symbolic header within the DOCUMENTED preconditions of `LineProgram::new` (min_inst_len / max_ops given by the caller)
fn any_header(min_len: u8, max_ops: u8, range_le_127: bool) -> (Encoding, LineEncoding, Hdr) {
    let line_base: i8 = kani::any();
    let line_range: u8 = kani::any();
    kani::assume(line_base <= 0); // "Panics if line_base > 0"
    kani::assume(line_base as i16 + line_range as i16 > 0); // "Panics if line_base + line_range <= 0"
    if range_le_127 {
        kani::assume(line_range <= 127); // EXCL F-wline-1
    }
    let version: u16 = kani::any();
    kani::assume(version >= 2 && version <= 5);
    let default_is_stmt: bool = kani::any();
    let encoding = Encoding { format: Format::Dwarf32, version, address_size: 8 };
    let line_encoding = LineEncoding {
        minimum_instruction_length: min_len,
        maximum_operations_per_instruction: max_ops,
        default_is_stmt,
        line_base,
        line_range,
    };
    let h = Hdr { version, min_inst_len: min_len, max_ops, default_is_stmt, line_base, line_range, opcode_base: OPCODE_BASE };
    (encoding, line_encoding, h)
}

/// the invariant of the writer's (prev_row, row) pair + the documented preconditions of generate_row / end_sequence
fn assume_rows(h: &Hdr, prev: &LineRow, row: &LineRow, base: u64, adv_bound: Option<u64>, lines_lt_2_63: bool) {
    let min_len = h.min_inst_len as u64;
    let max_ops = h.max_ops as u64;
    // 6.2.2: op_index < maximum_operations_per_instruction
    kani::assume(prev.op_index < max_ops && row.op_index < max_ops);
    // debug_assert of op_advance; prev_row passed the same check when it was the current row (0 initially)
    kani::assume(prev.address_offset % min_len == 0 && row.address_offset % min_len == 0);
    // "Panics if the address_offset decreases" (an op_index going backwards at the same address is a decrease as well)
    kani::assume(
        prev.address_offset < row.address_offset
            || (prev.address_offset == row.address_offset && prev.op_index <= row.op_index),
    );
    // prev_row is a row after the per-row reset (generate_row / end_sequence / initial_state establish it)
    kani::assume(prev.discriminator == 0 && !prev.basic_block && !prev.prologue_end && !prev.epilogue_begin);
    // the row exists on the target
    kani::assume(base.checked_add(row.address_offset).is_some());
    // FileId is an index into the file table; raw() adds 1 for version <= 4
    kani::assume(prev.file.index() < usize::MAX && row.file.index() < usize::MAX);
    // EXCL F-wline-2
    if lines_lt_2_63 {
        kani::assume(prev.line < (1u64 << 63) && row.line < (1u64 << 63));
    }
    // EXCL F-wline-3 (needs < 2^56) / bound of the harness
    if let Some(b) = adv_bound {
        kani::assume(row.address_offset - prev.address_offset < b);
    }
}

fn program(encoding: Encoding, line_encoding: LineEncoding, prev: LineRow, row: LineRow, m: Machine) -> LineProgram {
    LineProgram {
        encoding,
        line_encoding,
        prev_row: prev,
        row,
        instructions: Vec::observing(m),
        in_sequence: kani::any(),
    }
}

// ------------------------------------------------------------------------------------------------ the check
fn check_row(min_len: u8, max_ops: u8, range_le_127: bool, adv_bound: Option<u64>, probes: bool) {
    check_row_dom(min_len, max_ops, range_le_127, adv_bound, true, probes)
}

fn check_row_dom(min_len: u8, max_ops: u8, range_le_127: bool, adv_bound: Option<u64>, lines_lt_2_63: bool, probes: bool) {
    let (encoding, line_encoding, h) = any_header(min_len, max_ops, range_le_127);
    let prev = any_row();
    let row = any_row();
    let base: u64 = kani::any();
    assume_rows(&h, &prev, &row, base, adv_bound, lines_lt_2_63);

    let mut p = program(encoding, line_encoding, prev, row, Machine::new(h, regs_of(base, &prev, h.version)));
    p.generate_row();

    let m = &p.instructions.m;
    let n = m.count;
    assert!(n >= 1 && n <= MAX_PUSHED);

    // [special] [exact]
    assert!(m.special_ok);
    assert!(m.exact);
    // [rows]
    assert!(m.rows == 1);
    assert!(m.last_at == n - 1);
    // [row]
    let want = regs_of(base, &row, h.version);
    assert!(m.last.address == want.address);
    assert!(m.last.op_index == want.op_index);
    assert!(m.last.file == want.file);
    assert!(m.last.line == want.line);
    assert!(m.last.column == want.column);
    assert!(m.last.is_stmt == want.is_stmt);
    assert!(m.last.basic_block == want.basic_block);
    assert!(!m.last.end_sequence);
    assert!(m.last.prologue_end == want.prologue_end);
    assert!(m.last.epilogue_begin == want.epilogue_begin);
    assert!(m.last.isa == want.isa);
    assert!(m.last.discriminator == want.discriminator);
    // [doc]
    let after = LineRow { discriminator: 0, basic_block: false, prologue_end: false, epilogue_begin: false, ..row };
    assert!(p.row == after);
    assert!(p.prev_row == after);
    assert!(p.in_sequence);
    // [state]
    assert!(m.r == regs_of(base, &p.prev_row, h.version));
    // vacuity probes, only in the unregistered harness x_linegen_probes (a satisfied cover would otherwise add playback tests
    // that the driver could mistake for the counterexample): every shape of the opcode choice is reachable
    if probes {
        kani::cover!(m.saw_const_add_pc && m.saw_special && m.saw_advance_line, "advance_line + const_add_pc + special");
        kani::cover!(m.saw_const_add_pc && m.saw_special && row.line < prev.line, "const_add_pc + special with negative line advance");
        kani::cover!(m.saw_advance_pc && m.saw_copy && row.op_index < prev.op_index, "advance_pc + copy, op_index decreasing");
        kani::cover!(m.saw_advance_pc && m.saw_special, "advance_pc + special (line only)");
        kani::cover!(m.saw_special && n == 1 && row.address_offset > prev.address_offset, "one special opcode for line and address");
        kani::cover!(n == MAX_PUSHED, "eleven instructions");
        kani::cover!(m.saw_copy && n == 1, "copy alone");
    }
}

/// EXCL F-wline-3
const ADV48: Option<u64> = Some(1 << 48);

/// one harness per (maximum_operations_per_instruction, minimum_instruction_length) of the property's grid {1,2,4} x {1,2,4}:
/// constants, so that CBMC sees shifts instead of 64-bit dividers; ~1 CPU-min each
macro_rules! row_harness {
    ($name:ident, $max_ops:expr, $min_len:expr) => {
        #[kani::proof]
        fn $name() {
            check_row($min_len, $max_ops, false, ADV48, false);
        }
    };
}
row_harness!(k_linegen_row_o1_l1, 1, 1);
row_harness!(k_linegen_row_o1_l2, 1, 2);
row_harness!(k_linegen_row_o1_l4, 1, 4);
row_harness!(k_linegen_row_o2_l1, 2, 1);
row_harness!(k_linegen_row_o2_l2, 2, 2);
row_harness!(k_linegen_row_o2_l4, 2, 4);
row_harness!(k_linegen_row_o4_l1, 4, 1);
row_harness!(k_linegen_row_o4_l2, 4, 2);
row_harness!(k_linegen_row_o4_l4, 4, 4);

/// FINDING harness (F-wline-1), expected to FAIL on the pinned tree: the documented precondition admits line_range >= 128
/// (e.g. line_base 0, line_range 200); `debug_assert!(line_base + line_range as i8 >= 0)` of generate_row then panics (the
/// same cast makes `LineProgram::new` panic).  Registered disabled; enable together with a known-finding entry.
#[kani::proof]
fn k_linegen_f_range128() {
    check_row(1, 1, false, ADV48, false);
}

/// any maximum_operations_per_instruction 1..=255 (symbolic: 64-bit dividers with a symbolic divisor; affordable only with a
/// narrow advance): bounded(address advance < 2^8 instructions) - operation advances up to 255 * 255 + 254; 5-7 CPU-min each
macro_rules! row_harness_any_ops {
    ($name:ident, $min_len:expr) => {
        #[kani::proof]
        fn $name() {
            let max_ops: u8 = kani::any();
            kani::assume(max_ops >= 1);
            check_row($min_len, max_ops, true, Some($min_len << 8), false);
        }
    };
}
row_harness_any_ops!(k_linegen_row_oany_l1, 1);
row_harness_any_ops!(k_linegen_row_oany_l2, 2);
row_harness_any_ops!(k_linegen_row_oany_l4, 4);

/// NOT REGISTERED: vacuity probes (run with the full output format and look for `cover` ... SATISFIED, 7 of 7)
#[kani::proof]
fn x_linegen_probes() {
    check_row(2, 4, true, ADV48, true);
}

/// FINDING harness (F-wline-2), expected to FAIL on the pinned tree: lines are u64 in the API, `row.line as i64 -
/// prev_row.line as i64` overflows / yields the wrong advance when the two lines straddle 2^63.  Registered disabled.
#[kani::proof]
fn k_linegen_f_line63() {
    check_row_dom(1, 1, true, ADV48, false, false);
}

/// FINDING harness (F-wline-3), expected to FAIL on the pinned tree: no bound on the address advance; `address_advance *
/// max_ops` (op_advance) and `special + op_advance * line_range` (generate_row) overflow.  Registered disabled.
#[kani::proof]
fn k_linegen_f_adv56() {
    check_row_dom(1, 4, true, None, true, false);
}

// ------------------------------------------------------------------------------------------------ end_sequence
/// `end_sequence(address_offset)`: (advance_pc?) end_sequence appends exactly one row - the previous row's registers at
/// (base + address_offset, row.op_index) with end_sequence set - and leaves the machine and both writer rows in the initial
/// state of table 6.4 ("Only the address_offset and op_index fields of the current row are used").
fn check_endseq(min_len: u8, max_ops: u8) {
    let (encoding, line_encoding, h) = any_header(min_len, max_ops, false);
    let prev = any_row();
    let row = any_row();
    let address_offset: u64 = kani::any();
    let base: u64 = kani::any();
    let at = LineRow { address_offset, ..row };
    assume_rows(&h, &prev, &at, base, ADV48, true);

    let mut p = program(encoding, line_encoding, prev, row, Machine::new(h, regs_of(base, &prev, h.version)));
    p.end_sequence(address_offset);

    let m = &p.instructions.m;
    assert!(m.count == 1 || m.count == 2);
    assert!(m.special_ok && m.exact);
    assert!(m.rows == 1 && m.last_at == m.count - 1);
    let want = Regs { address: base + address_offset, op_index: row.op_index, end_sequence: true, ..regs_of(base, &prev, h.version) };
    assert!(m.last == want);
    let init = LineRow::initial_state(encoding, line_encoding);
    assert!(p.row == init && p.prev_row == init && !p.in_sequence);
    // the writer's initial row IS table 6.4 (file register 1 for every version 2..=5)
    assert!(m.r == Machine::initial(&h));
    assert!(regs_of(0, &p.prev_row, h.version) == m.r);
}

#[kani::proof]
fn k_linegen_endseq() {
    let sel: u8 = kani::any();
    let ops: u8 = kani::any();
    let max_ops = if ops == 0 { 1 } else if ops == 1 { 2 } else { 4 };
    if sel == 0 {
        check_endseq(1, max_ops);
    } else if sel == 1 {
        check_endseq(2, max_ops);
    } else {
        check_endseq(4, max_ops);
    }
}

// ------------------------------------------------------------------------------------------------ begin_sequence / set_address
/// `begin_sequence(Some(a))` / `set_address(a)` at the start of a sequence: exactly DW_LNE_set_address(a), no row, and the
/// machine is at (a, op_index 0) with every other register initial - the state `prev_row` (initial, offset 0) describes
/// for base = a.  (Mid-sequence set_address: F-wline-4, not restated here.)
#[kani::proof]
fn k_linegen_setaddr() {
    let (encoding, line_encoding, h) = any_header(1, 4, false);
    let init = LineRow::initial_state(encoding, line_encoding);
    let a: u64 = kani::any();
    let mut p = program(encoding, line_encoding, init, init, Machine::new(h, Machine::initial(&h)));
    p.in_sequence = false;
    if kani::any() {
        p.begin_sequence(Some(Address::Constant(a)));
    } else {
        p.set_address(Address::Constant(a));
    }
    let m = &p.instructions.m;
    assert!(m.count == 1 && m.rows == 0 && m.exact);
    assert!(p.in_sequence && p.row == init && p.prev_row == init);
    assert!(m.r == regs_of(a, &p.prev_row, h.version));
}
