//! K-WPRIM: the writer primitives on the shipped `EndianVec` produce exactly the bytes of the semantic field the Verus
//! write-side contract layer (vx/batches/wcore.py) logs for them, and nothing else. Discharges the R-REQUIRED contracts
//! of `Writer::{write_u8..write_u128, write_u8_at..write_u128_at, write_uleb128, write_sleb128}` and the contracts of the
//! required methods `write`, `write_at`, `len` on EndianVec; re-checks `write_udata/write_sdata/write_udata_at/
//! write_initial_length(+_at)` end to end (write, then read back with the real reader) for EVERY size argument 0..=255,
//! every value, both byte orders. All complete: no loop depends on the input beyond the field width (<= 16 bytes /
//! 10 LEB128 groups); values, sizes, offsets and byte order fully symbolic.
use crate::refs::*;
use gimli::write::{EndianVec, Error, Writer};
use gimli::{EndianSlice, Endianity, Format, Reader, RunTimeEndian};

fn any_endian() -> RunTimeEndian {
    if kani::any() { RunTimeEndian::Big } else { RunTimeEndian::Little }
}

/// closed-form sizes: mirrors of `uleb_size` / `sleb_size` in vx/specs/wcore.rs (n groups hold 7n bits)
fn uleb_size_ref(v: u64) -> usize {
    let mut n = 1;
    while n < 10 && (v >> (7 * n)) != 0 {
        n += 1;
    }
    n
}
fn sleb_size_ref(v: i64) -> usize {
    let mut n = 1;
    // n groups hold -2^(7n-1) <= v < 2^(7n-1)
    while n < 10 && !((v >> (7 * n - 1)) == 0 || (v >> (7 * n - 1)) == -1) {
        n += 1;
    }
    n
}

const MARK: u8 = 0xa5;

/// a writer that already holds one byte, so that "appends at len-before" is visible
fn writer1(e: RunTimeEndian) -> EndianVec<RunTimeEndian> {
    let mut w = EndianVec::new(e);
    w.write(&[MARK]).unwrap();
    w
}

macro_rules! fixed {
    ($name:ident, $meth:ident, $ty:ty, $n:expr) => {
        /// write_uN appends exactly N bytes holding the value in the writer's byte order
        #[kani::proof]
        #[kani::unwind(20)]
        fn $name() {
            let e = any_endian();
            let val: $ty = kani::any();
            let mut w = writer1(e);
            assert!(w.$meth(val) == Ok(()));
            assert!(w.len() == 1 + $n);
            assert!(w.slice()[0] == MARK);
            assert!(uint_of(&w.slice()[1..], e.is_big_endian()) == val as u128);
        }
    };
}
fixed!(k_wprim_fixed_u8, write_u8, u8, 1);
fixed!(k_wprim_fixed_u16, write_u16, u16, 2);
fixed!(k_wprim_fixed_u32, write_u32, u32, 4);
fixed!(k_wprim_fixed_u64, write_u64, u64, 8);
fixed!(k_wprim_fixed_u128, write_u128, u128, 16);

macro_rules! fixed_at {
    ($name:ident, $meth:ident, $ty:ty, $n:expr) => {
        /// write_uN_at: Ok exactly when offset + N <= len; overwrites exactly those N bytes; Err leaves everything alone
        #[kani::proof]
        #[kani::unwind(22)]
        fn $name() {
            let e = any_endian();
            let val: $ty = kani::any();
            let init: [u8; $n + 2] = kani::any();
            let offset: usize = kani::any();
            let mut w = EndianVec::new(e);
            w.write(&init).unwrap();
            let res = w.$meth(offset, val);
            assert!(w.len() == $n + 2);
            if offset <= 2 {
                assert!(res == Ok(()));
                assert!(uint_of(&w.slice()[offset..offset + $n], e.is_big_endian()) == val as u128);
                let mut i = 0;
                while i < $n + 2 {
                    if i < offset || i >= offset + $n {
                        assert!(w.slice()[i] == init[i]);
                    }
                    i += 1;
                }
            } else {
                assert!(res.is_err());
                assert!(w.slice() == &init[..]);
            }
        }
    };
}
fixed_at!(k_wprim_patch_u8, write_u8_at, u8, 1);
fixed_at!(k_wprim_patch_u16, write_u16_at, u16, 2);
fixed_at!(k_wprim_patch_u32, write_u32_at, u32, 4);
fixed_at!(k_wprim_patch_u64, write_u64_at, u64, 8);
fixed_at!(k_wprim_patch_u128, write_u128_at, u128, 16);

/// `write` appends; `write_at` is Ok exactly when offset + bytes.len() <= len (no wrap-around) and then overwrites in place
#[kani::proof]
#[kani::unwind(8)]
fn k_wprim_write_and_write_at() {
    let init: [u8; 4] = kani::any();
    let patch: [u8; 3] = kani::any();
    let n: usize = kani::any();
    kani::assume(n <= 3);
    let offset: usize = kani::any();
    let mut w = writer1(any_endian());
    assert!(w.write(&init) == Ok(()));
    assert!(w.len() == 5 && w.slice()[0] == MARK && w.slice()[1..] == init[..]);
    let res = w.write_at(offset, &patch[..n]);
    assert!(w.len() == 5);
    if offset <= 5 && n <= 5 - offset {
        assert!(res == Ok(()));
        assert!(w.slice()[offset..offset + n] == patch[..n]);
    } else {
        assert!(res.is_err());
        assert!(w.slice()[1..] == init[..]);
    }
}

/// write_udata for EVERY size: Ok exactly when size is 1/2/4/8 and the value fits; then `size` bytes are appended and
/// read back (real reader) as the value; ValueTooLarge exactly when it does not fit; UnsupportedWordSize(size) otherwise
#[kani::proof]
#[kani::unwind(12)]
fn k_wprim_udata_all_sizes() {
    let e = any_endian();
    let val: u64 = kani::any();
    let size: u8 = kani::any();
    let mut w = writer1(e);
    let res = w.write_udata(val, size);
    let valid = size == 1 || size == 2 || size == 4 || size == 8;
    let fits = size >= 8 || val < (1u64 << (8 * (size as u32 % 8)));
    if !valid {
        assert!(res == Err(Error::UnsupportedWordSize(size)));
        assert!(w.len() == 1);
    } else if !fits {
        assert!(res == Err(Error::ValueTooLarge));
        assert!(w.len() == 1);
    } else {
        assert!(res == Ok(()));
        assert!(w.len() == 1 + size as usize);
        assert!(w.slice()[0] == MARK);
        let mut r = EndianSlice::new(&w.slice()[1..], e);
        assert!(r.read_uint(size as usize) == Ok(val));
        assert!(r.is_empty());
    }
}

/// write_sdata for EVERY size: as write_udata with the signed range; the signed reads return the value
#[kani::proof]
#[kani::unwind(12)]
fn k_wprim_sdata_all_sizes() {
    let e = any_endian();
    let val: i64 = kani::any();
    let size: u8 = kani::any();
    let mut w = writer1(e);
    let res = w.write_sdata(val, size);
    let valid = size == 1 || size == 2 || size == 4 || size == 8;
    let fits = match size {
        1 => -0x80 <= val && val < 0x80,
        2 => -0x8000 <= val && val < 0x8000,
        4 => -0x8000_0000 <= val && val < 0x8000_0000,
        _ => true,
    };
    if !valid {
        assert!(res == Err(Error::UnsupportedWordSize(size)));
        assert!(w.len() == 1);
    } else if !fits {
        assert!(res == Err(Error::ValueTooLarge));
        assert!(w.len() == 1);
    } else {
        assert!(res == Ok(()));
        assert!(w.len() == 1 + size as usize);
        let mut r = EndianSlice::new(&w.slice()[1..], e);
        let back = match size {
            1 => r.read_i8().map(i64::from),
            2 => r.read_i16().map(i64::from),
            4 => r.read_i32().map(i64::from),
            _ => r.read_i64(),
        };
        assert!(back == Ok(val));
        assert!(r.is_empty());
        // the bytes are the two's complement value (the field `ws(val, size)` of the contract layer)
        let tc = if size == 8 { val as u64 as u128 } else { (val as u64 as u128) & ((1u128 << (8 * size as u32)) - 1) };
        assert!(uint_of(&w.slice()[1..], e.is_big_endian()) == tc);
    }
}

/// write_udata_at for EVERY size and offset: fit / size errors as write_udata; Ok exactly when additionally
/// offset + size <= len; patches in place, reads back as the value
#[kani::proof]
#[kani::unwind(12)]
fn k_wprim_udata_at_all_sizes() {
    let e = any_endian();
    let val: u64 = kani::any();
    let size: u8 = kani::any();
    let offset: usize = kani::any();
    let init: [u8; 9] = kani::any();
    let mut w = EndianVec::new(e);
    w.write(&init).unwrap();
    let res = w.write_udata_at(offset, val, size);
    let valid = size == 1 || size == 2 || size == 4 || size == 8;
    let fits = size >= 8 || val < (1u64 << (8 * (size as u32 % 8)));
    assert!(w.len() == 9);
    if !valid {
        assert!(res == Err(Error::UnsupportedWordSize(size)));
        assert!(w.slice() == &init[..]);
    } else if !fits {
        assert!(res == Err(Error::ValueTooLarge));
        assert!(w.slice() == &init[..]);
    } else if offset <= 9 && size as usize <= 9 - offset {
        assert!(res == Ok(()));
        let mut r = EndianSlice::new(&w.slice()[offset..], e);
        assert!(r.read_uint(size as usize) == Ok(val));
        let mut i = 0;
        while i < 9 {
            if i < offset || i >= offset + size as usize {
                assert!(w.slice()[i] == init[i]);
            }
            i += 1;
        }
    } else {
        assert!(res.is_err());
        assert!(w.slice() == &init[..]);
    }
}

/// write_uleb128 appends uleb_size(val) bytes that the real reader decodes to val (all u64)
#[kani::proof]
#[kani::unwind(12)]
fn k_wprim_uleb128() {
    let val: u64 = kani::any();
    let mut w = writer1(any_endian());
    assert!(w.write_uleb128(val) == Ok(()));
    assert!(w.slice()[0] == MARK);
    assert!(w.len() == 1 + uleb_size_ref(val));
    assert!(gimli::leb128::write::uleb128_size(val) == uleb_size_ref(val));
    let mut r = EndianSlice::new(&w.slice()[1..], w.endian());
    assert!(r.read_uleb128() == Ok(val));
    assert!(r.is_empty());
}

/// write_sleb128 appends sleb_size(val) bytes that the real reader decodes to val (all i64)
#[kani::proof]
#[kani::unwind(12)]
fn k_wprim_sleb128() {
    let val: i64 = kani::any();
    let mut w = writer1(any_endian());
    assert!(w.write_sleb128(val) == Ok(()));
    assert!(w.slice()[0] == MARK);
    assert!(w.len() == 1 + sleb_size_ref(val));
    assert!(gimli::leb128::write::sleb128_size(val) == sleb_size_ref(val));
    let mut r = EndianSlice::new(&w.slice()[1..], w.endian());
    assert!(r.read_sleb128() == Ok(val));
    assert!(r.is_empty());
}

/// write_initial_length(format) + write_initial_length_at(offset, length, format), every length, one harness per format:
/// 4 / 12 bytes are appended (0xffff_ffff escape first for DWARF64), the returned offset addresses the length word,
/// the patch is Ok exactly when the length fits the word and is not a reserved 32-bit length (0xffff_fff0..=0xffff_ffff:
/// Err(InitialLengthOverflow)), and the real reader gets (length, format) back for EVERY accepted length
fn initial_length(format: Format, n: usize, body: usize) {
    let e = any_endian();
    let length: u64 = kani::any();
    let mut w = writer1(e);
    let off = w.write_initial_length(format).unwrap();
    assert!(w.len() == 1 + n);
    assert!(format.initial_length_size() as usize == n);
    assert!(body + format.word_size() as usize == 1 + n);
    // a zero length word, after the escape for DWARF64
    if n == 12 {
        assert!(uint_of(&w.slice()[1..5], e.is_big_endian()) == 0xffff_ffff);
    }
    assert!(uint_of(&w.slice()[body..], e.is_big_endian()) == 0);
    let res = w.write_initial_length_at(off, length, format);
    assert!(w.len() == 1 + n);
    assert!(w.slice()[0] == MARK);
    if n == 4 && length > 0xffff_ffff {
        assert!(res == Err(Error::ValueTooLarge));
        assert!(uint_of(&w.slice()[body..], e.is_big_endian()) == 0);
    } else if n == 4 && length >= 0xffff_fff0 {
        // DWARF 5 section 7.4: reserved 32-bit lengths are refused (F-wcore-1, fixed in /repo 3c89b90)
        assert!(res == Err(Error::InitialLengthOverflow));
        assert!(uint_of(&w.slice()[body..], e.is_big_endian()) == 0);
    } else {
        assert!(res == Ok(()));
        // the offset returned is the offset of the length word
        assert!(uint_of(&w.slice()[body..], e.is_big_endian()) == length as u128);
        if n == 12 {
            assert!(uint_of(&w.slice()[1..5], e.is_big_endian()) == 0xffff_ffff);
        }
        // every accepted length reads back
        let mut r = EndianSlice::new(&w.slice()[1..], e);
        assert!(r.read_initial_length() == Ok((length as usize, format)));
        assert!(r.is_empty());
    }
}

#[kani::proof]
#[kani::unwind(16)]
fn k_wprim_initial_length_32() {
    initial_length(Format::Dwarf32, 4, 1);
}

#[kani::proof]
#[kani::unwind(16)]
fn k_wprim_initial_length_64() {
    initial_length(Format::Dwarf64, 12, 5);
}
