//! K-PRIM: fixed-width / sized reads on the two shipped readers equal the mathematical value and consume
//! exactly their bytes (discharges the R-REQUIRED contracts the Verus side assumes). All complete: no loops over
//! input, inputs fully symbolic, buffer one byte longer than the widest read with symbolic length.
use crate::refs::*;
use gimli::{EndianReader, EndianSlice, Endianity, Format, Reader, RunTimeEndian};
use std::rc::Rc;

fn any_endian() -> RunTimeEndian {
    if kani::any() { RunTimeEndian::Big } else { RunTimeEndian::Little }
}

macro_rules! fixed {
    ($name:ident, $mk:expr, $meth:ident, $n:expr, $conv:expr) => {
        #[kani::proof]
        #[kani::unwind(20)]
        fn $name() {
            let buf: [u8; 17] = kani::any();
            let n: usize = kani::any();
            kani::assume(n <= 17);
            let e = any_endian();
            let mut r = $mk(&buf[..n], e);
            let before = r.len();
            let got = r.$meth();
            if n >= $n {
                let want = uint_of(&buf[..$n], e.is_big_endian());
                assert!(got.is_ok());
                #[allow(clippy::redundant_closure_call)]
                let as_u: u128 = ($conv)(got.unwrap());
                assert!(as_u == want);
                assert!(r.len() == before - $n);
            } else {
                assert!(got.is_err());
                assert!(r.len() == before);
            }
        }
    };
}

fn mk_slice(b: &[u8], e: RunTimeEndian) -> EndianSlice<'_, RunTimeEndian> {
    EndianSlice::new(b, e)
}
fn mk_rc(b: &[u8], e: RunTimeEndian) -> EndianReader<RunTimeEndian, Rc<[u8]>> {
    EndianReader::new(Rc::from(b), e)
}

fixed!(k_prim_slice_u8, mk_slice, read_u8, 1, |v: u8| v as u128);
fixed!(k_prim_slice_i8, mk_slice, read_i8, 1, |v: i8| v as u8 as u128);
fixed!(k_prim_slice_u16, mk_slice, read_u16, 2, |v: u16| v as u128);
fixed!(k_prim_slice_i16, mk_slice, read_i16, 2, |v: i16| v as u16 as u128);
fixed!(k_prim_slice_u32, mk_slice, read_u32, 4, |v: u32| v as u128);
fixed!(k_prim_slice_i32, mk_slice, read_i32, 4, |v: i32| v as u32 as u128);
fixed!(k_prim_slice_u64, mk_slice, read_u64, 8, |v: u64| v as u128);
fixed!(k_prim_slice_i64, mk_slice, read_i64, 8, |v: i64| v as u64 as u128);
fixed!(k_prim_slice_u128, mk_slice, read_u128, 16, |v: u128| v);
fixed!(k_prim_slice_f32, mk_slice, read_f32, 4, |v: f32| v.to_bits() as u128);
fixed!(k_prim_slice_f64, mk_slice, read_f64, 8, |v: f64| v.to_bits() as u128);
fixed!(k_prim_rc_u16, mk_rc, read_u16, 2, |v: u16| v as u128);
fixed!(k_prim_rc_u32, mk_rc, read_u32, 4, |v: u32| v as u128);
fixed!(k_prim_rc_u64, mk_rc, read_u64, 8, |v: u64| v as u128);
fixed!(k_prim_rc_i64, mk_rc, read_i64, 8, |v: i64| v as u64 as u128);

/// read_uint(n) for every n in 1..=8
#[kani::proof]
#[kani::unwind(12)]
fn k_prim_slice_read_uint() {
    let buf: [u8; 9] = kani::any();
    let len: usize = kani::any();
    kani::assume(len <= 9);
    let n: usize = kani::any();
    kani::assume(1 <= n && n <= 8);
    let e = any_endian();
    let mut r = EndianSlice::new(&buf[..len], e);
    let got = r.read_uint(n);
    if len >= n {
        assert!(got == Ok(uint_of(&buf[..n], e.is_big_endian()) as u64));
        assert!(r.len() == len - n);
    } else {
        assert!(got.is_err());
        assert!(r.len() == len);
    }
}

/// read_address / read_sized_offset for EVERY size argument 0..=255
#[kani::proof]
#[kani::unwind(12)]
fn k_prim_slice_sized() {
    let buf: [u8; 9] = kani::any();
    let len: usize = kani::any();
    kani::assume(len <= 9);
    let size: u8 = kani::any();
    let e = any_endian();
    let mut a = EndianSlice::new(&buf[..len], e);
    let mut o = a;
    let ga = a.read_address(size);
    let go = o.read_sized_offset(size);
    let valid = size == 1 || size == 2 || size == 4 || size == 8;
    if valid && len >= size as usize {
        let want = uint_of(&buf[..size as usize], e.is_big_endian()) as u64;
        assert!(ga == Ok(want));
        assert!(go == Ok(want as usize));
        assert!(a.len() == len - size as usize && o.len() == len - size as usize);
    } else {
        assert!(ga.is_err() && go.is_err());
        assert!(a.len() == len);
    }
}

/// initial length: 32-bit, 64-bit escape, reserved values; read_word / read_offset / read_length
#[kani::proof]
#[kani::unwind(16)]
fn k_prim_slice_initial_length() {
    let buf: [u8; 13] = kani::any();
    let len: usize = kani::any();
    kani::assume(len <= 13);
    let e = any_endian();
    let mut r = EndianSlice::new(&buf[..len], e);
    let got = r.read_initial_length();
    if len < 4 {
        assert!(got.is_err());
        return;
    }
    let w = uint_of(&buf[..4], e.is_big_endian()) as u64;
    if w < 0xffff_fff0 {
        assert!(got == Ok((w as usize, Format::Dwarf32)));
        assert!(r.len() == len - 4);
    } else if w == 0xffff_ffff {
        if len >= 12 {
            let l = uint_of(&buf[4..12], e.is_big_endian()) as u64;
            assert!(got == Ok((l as usize, Format::Dwarf64)));
            assert!(r.len() == len - 12);
        } else {
            assert!(got.is_err());
        }
    } else {
        assert!(got.is_err());
    }
}

#[kani::proof]
#[kani::unwind(12)]
fn k_prim_slice_word() {
    let buf: [u8; 9] = kani::any();
    let len: usize = kani::any();
    kani::assume(len <= 9);
    let e = any_endian();
    let format = if kani::any() { Format::Dwarf64 } else { Format::Dwarf32 };
    let n = if format == Format::Dwarf64 { 8 } else { 4 };
    assert!(format.word_size() as usize == n);
    let mut a = EndianSlice::new(&buf[..len], e);
    let mut b = a;
    let mut c = a;
    let ga = a.read_word(format);
    let gb = b.read_offset(format);
    let gc = c.read_length(format);
    assert!(ga == gb && gb == gc);
    if len >= n {
        assert!(ga == Ok(uint_of(&buf[..n], e.is_big_endian()) as usize));
        assert!(a.len() == len - n && b.len() == len - n && c.len() == len - n);
    } else {
        assert!(ga.is_err());
    }
}

/// Endianity trait itself: read/write round trip and value for both run-time orders
#[kani::proof]
#[kani::unwind(12)]
fn k_prim_endianity() {
    let mut e = any_endian();
    let b: [u8; 8] = kani::any();
    assert!(e.read_u16(&b[..2]) as u128 == uint_of(&b[..2], e.is_big_endian()));
    assert!(e.read_u32(&b[..4]) as u128 == uint_of(&b[..4], e.is_big_endian()));
    assert!(e.read_u64(&b[..8]) as u128 == uint_of(&b[..8], e.is_big_endian()));
    assert!(e.read_i16(&b[..2]) as u16 as u128 == uint_of(&b[..2], e.is_big_endian()));
    assert!(e.read_i32(&b[..4]) as u32 as u128 == uint_of(&b[..4], e.is_big_endian()));
    assert!(e.read_i64(&b[..8]) as u64 as u128 == uint_of(&b[..8], e.is_big_endian()));
    let n: usize = kani::any();
    kani::assume(1 <= n && n <= 8);
    assert!(e.read_uint(&b[..n]) as u128 == uint_of(&b[..n], e.is_big_endian()));
    let mut o = [0u8; 8];
    let v: u64 = kani::any();
    e.write_u64(&mut o, v);
    assert!(e.read_u64(&o) == v);
    e.write_u32(&mut o[..4], v as u32);
    assert!(e.read_u32(&o[..4]) == v as u32);
    e.write_u16(&mut o[..2], v as u16);
    assert!(e.read_u16(&o[..2]) == v as u16);
}
