//! reference functions written from the DWARF standard (mirrors of vx/specs/core.rs)

/// (value, terminated, index of terminator) of the ULEB128 prefix of `buf[..n]`, accumulating in 128+ bits
pub fn uleb_ref(buf: &[u8], n: usize) -> (u128, bool, usize, bool) {
    let mut acc: u128 = 0;
    let mut k = 0usize;
    let mut term = false;
    let mut too_big = false;
    while k < n {
        if 7 * k < 121 {
            acc |= ((buf[k] & 0x7f) as u128) << (7 * k as u32);
        } else if buf[k] & 0x7f != 0 {
            too_big = true;
        }
        if buf[k] & 0x80 == 0 {
            term = true;
            break;
        }
        k += 1;
    }
    (acc, term, k, too_big)
}

pub fn uint_le(b: &[u8]) -> u128 {
    let mut v: u128 = 0;
    let mut i = b.len();
    while i > 0 {
        i -= 1;
        v = (v << 8) | b[i] as u128;
    }
    v
}

pub fn uint_be(b: &[u8]) -> u128 {
    let mut v: u128 = 0;
    let mut i = 0;
    while i < b.len() {
        v = (v << 8) | b[i] as u128;
        i += 1;
    }
    v
}

pub fn uint_of(b: &[u8], be: bool) -> u128 {
    if be { uint_be(b) } else { uint_le(b) }
}
