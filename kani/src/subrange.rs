//! K-SUBRANGE (C10, C01): inductive step for the `unsafe` `SubRange` behind `EndianReader` (DESIGN.md 6 C10, probe P23).
//!
//! Invariant I(r): `r` is the window [off, off+len) of its shared buffer, `off + len <= buffer length`
//! (`SubRange.ptr == bytes.as_ptr() + off`, `SubRange.len == len`).
//! Base: `EndianReader::new(buf)` is the window [0, buf.len()).
//! Step (these harnesses): from an ARBITRARY state satisfying I — every such state is `new(buf).range(s..s+n)` for
//! some s, n with s + n <= buf.len(), which is how the harness builds it — apply ONE arbitrary operation with
//! arbitrary arguments.  Checked: (1) CBMC's pointer checks on every `ptr.add` / `slice::from_raw_parts` of the real
//! unsafe code (no out-of-allocation pointer, no dangling dereference), (2) I holds again for the reader and for every
//! reader the operation hands back, at exactly the expected window, and an arbitrary byte read through it is the byte of
//! the section at that offset, (3) results and the remaining window equal those of the borrowed `EndianSlice` on the
//! same window (reader kinds agree), (4) the bytes stay readable after clone + drop of the original / of the clone / of
//! the section reader in any order.
//! The operations are spread over several harnesses: `*_cursor` (skip / truncate / split / empty), `*_ints` (read_u32 /
//! read_u64), `*_read_slice`, `*_views` (offset_id + lookup_offset_id, range / range_from / range_to, offset_from between
//! windows), `*_find`.
//! Complete in the operation and its arguments; bounded in the buffer length (16 bytes, `Rc<[u8]>`; thorough tier:
//! 32 bytes, `Arc<[u8]>`).  `Rc`/`Arc` themselves are dependencies (their code is executed by CBMC here, but no claim
//! is made about them beyond these runs).
use crate::eslice::{any_endian, choose};
use core::fmt::Debug;
use gimli::{CloneStableDeref, EndianReader, EndianSlice, Error, Reader, ReaderOffsetId, RunTimeEndian};
use std::rc::Rc;
use std::sync::Arc;

type ER<T> = EndianReader<RunTimeEndian, T>;
type S<'a> = EndianSlice<'a, RunTimeEndian>;

/// everything an operation sees: the section reader, the reader under test, the borrowed twin, the expected window
struct Ctx<'a, T: CloneStableDeref<Target = [u8]> + Debug> {
    data: &'a [u8],
    base: ER<T>,
    r: ER<T>,
    m: S<'a>,
    /// expected window of `r` (and of `m`) after the operation
    off: usize,
    len: usize,
}

/// I(x) at the expected window + one arbitrary byte
fn inv<T: CloneStableDeref<Target = [u8]> + Debug>(x: &ER<T>, base: &ER<T>, data: &[u8], off: usize, len: usize) {
    let l = data.len();
    assert!(off <= l && len <= l - off);
    assert!(x.len() == len);
    assert!(x.bytes().len() == len);
    assert!(x.offset_from(base) == off);
    assert!(x.bytes().as_ptr() == base.bytes().as_ptr().wrapping_add(off));
    let j: usize = kani::any();
    if j < len {
        assert!(x.bytes()[j] == data[off + j]);
    }
}

fn s_skip<T: CloneStableDeref<Target = [u8]> + Debug>(c: &mut Ctx<'_, T>) {
    let arg: usize = kani::any();
    let a = c.r.skip(arg);
    let b = c.m.skip(arg);
    assert!(a.is_ok() == b.is_ok() && a.is_ok() == (arg <= c.len));
    if a.is_ok() {
        c.off += arg;
        c.len -= arg;
    }
}
fn s_truncate<T: CloneStableDeref<Target = [u8]> + Debug>(c: &mut Ctx<'_, T>) {
    let arg: usize = kani::any();
    let a = c.r.truncate(arg);
    let b = c.m.truncate(arg);
    assert!(a.is_ok() == b.is_ok() && a.is_ok() == (arg <= c.len));
    if a.is_ok() {
        c.len = arg;
    }
}
fn s_split<T: CloneStableDeref<Target = [u8]> + Debug>(c: &mut Ctx<'_, T>) {
    let arg: usize = kani::any();
    let a = c.r.split(arg);
    let b = c.m.split(arg);
    assert!(a.is_ok() == b.is_ok() && a.is_ok() == (arg <= c.len));
    if let (Ok(a), Ok(b)) = (a, b) {
        inv(&a, &c.base, c.data, c.off, arg);
        assert!(b.len() == arg && b.slice().as_ptr() == c.data.as_ptr().wrapping_add(c.off));
        c.off += arg;
        c.len -= arg;
        // the head outlives the reader it was split from
        if kani::any() {
            c.r = a;
            c.m = b;
            c.off -= arg;
            c.len = arg;
        }
    }
}
fn s_empty<T: CloneStableDeref<Target = [u8]> + Debug>(c: &mut Ctx<'_, T>) {
    c.r.empty();
    c.m.empty();
    assert!(c.r.is_empty() && c.m.is_empty());
    // both readers keep the position: empty() is truncate(0)
    c.len = 0;
}
fn s_read_u32<T: CloneStableDeref<Target = [u8]> + Debug>(c: &mut Ctx<'_, T>) {
    let a = c.r.read_u32();
    let b = c.m.read_u32();
    assert!(a.is_ok() == (c.len >= 4));
    match (a, b) {
        (Ok(a), Ok(b)) => {
            assert!(a == b);
            c.off += 4;
            c.len -= 4;
        }
        (Err(Error::UnexpectedEof(id)), Err(_)) => assert!(c.base.lookup_offset_id(id) == Some(c.off)),
        _ => assert!(false),
    }
}
fn s_read_u64<T: CloneStableDeref<Target = [u8]> + Debug>(c: &mut Ctx<'_, T>) {
    let a = c.r.read_u64();
    let b = c.m.read_u64();
    assert!(a.is_ok() == (c.len >= 8));
    match (a, b) {
        (Ok(a), Ok(b)) => {
            assert!(a == b);
            c.off += 8;
            c.len -= 8;
        }
        (Err(_), Err(_)) => {}
        _ => assert!(false),
    }
}
fn s_read_slice<T: CloneStableDeref<Target = [u8]> + Debug>(c: &mut Ctx<'_, T>) {
    let k: usize = kani::any();
    kani::assume(k <= 9);
    let mut b1 = [0u8; 9];
    let mut b2 = [0u8; 9];
    let a = c.r.read_slice(&mut b1[..k]);
    let b = c.m.read_slice(&mut b2[..k]);
    assert!(a.is_ok() == b.is_ok() && a.is_ok() == (k <= c.len));
    if a.is_ok() {
        let j: usize = kani::any();
        if j < k {
            assert!(b1[j] == c.data[c.off + j] && b2[j] == b1[j]);
        }
        c.off += k;
        c.len -= k;
    }
}
fn s_find<T: CloneStableDeref<Target = [u8]> + Debug>(c: &mut Ctx<'_, T>) {
    let byte: u8 = kani::any();
    let j: usize = kani::any();
    match (c.r.find(byte), Reader::find(&c.m, byte)) {
        (Ok(i), Ok(i2)) => {
            assert!(i == i2 && i < c.len && c.data[c.off + i] == byte);
            assert!(!(j < i && c.data[c.off + j] == byte));
        }
        (Err(Error::UnexpectedEof(id)), Err(_)) => {
            assert!(!(j < c.len && c.data[c.off + j] == byte));
            assert!(c.base.lookup_offset_id(id) == Some(c.off));
        }
        _ => assert!(false),
    }
}
fn s_ids<T: CloneStableDeref<Target = [u8]> + Debug>(c: &mut Ctx<'_, T>) {
    // offset ids: round trip through the section reader and through the reader itself; arbitrary ids
    let id = c.r.offset_id();
    assert!(c.base.lookup_offset_id(id) == Some(c.off));
    assert!(c.r.lookup_offset_id(id) == Some(0));
    // an id taken at EVERY position p in 0..=len of the window -- including exactly its end (p == len) and the end of
    // the section (off + p == buffer length) -- maps back to p through the window and to off + p through the section
    let p: usize = kani::any();
    kani::assume(p <= c.len);
    let idp = c.r.range_from(p..).offset_id();
    assert!(c.r.lookup_offset_id(idp) == Some(p));
    assert!(c.base.lookup_offset_id(idp) == Some(c.off + p));
    let end_id = c.r.range_from(c.len..).offset_id();
    assert!(c.r.lookup_offset_id(end_id) == Some(c.len));
    let l = c.data.len();
    assert!(c.base.lookup_offset_id(c.base.range_from(l..).offset_id()) == Some(l));
    // the borrowed reader reports the same position for the id (ids are addresses in different buffers, positions agree)
    assert!(c.m.lookup_offset_id(c.m.range_from(p..).offset_id()) == Some(p));
    let x: u64 = kani::any();
    let start = c.r.bytes().as_ptr() as u64;
    match c.r.lookup_offset_id(ReaderOffsetId(x)) {
        Some(k) => assert!(k <= c.len && x == start + k as u64),
        None => assert!(x < start || x > start + c.len as u64),
    }
}
fn s_ranges<T: CloneStableDeref<Target = [u8]> + Debug>(c: &mut Ctx<'_, T>) {
    // a window of the window (range / range_from / range_to), offset_from between windows; the sub-window outlives r
    let s2: usize = kani::any();
    let n2: usize = kani::any();
    kani::assume(s2 <= c.len && n2 <= c.len - s2);
    let w = c.r.range(s2..s2 + n2);
    inv(&w, &c.base, c.data, c.off + s2, n2);
    assert!(w.offset_from(&c.r) == s2);
    let f = c.r.range_from(s2..);
    inv(&f, &c.base, c.data, c.off + s2, c.len - s2);
    let t = c.r.range_to(..s2);
    inv(&t, &c.base, c.data, c.off, s2);
    c.r = w;
    c.m = c.m.range(s2..s2 + n2);
    c.off += s2;
    c.len = n2;
}
// (`read_null_terminated_slice` = find + split + skip is a composition of steps covered above: by the inductive
//  argument it needs no harness of its own here; K-ESLICE / K-RELOC check it on the borrowed reader)

macro_rules! step {
    ($name:ident, $l:expr, $unwind:expr, $ptr:ident, $($f:ident),+) => {
        #[kani::proof]
        #[kani::unwind($unwind)]
        fn $name() {
            const L: usize = $l;
            let data: [u8; L] = kani::any();
            let e = any_endian();
            let buf: $ptr<[u8]> = $ptr::from(&data[..]);
            let s: usize = kani::any();
            let n: usize = kani::any();
            kani::assume(s <= L && n <= L - s);
            let base: ER<$ptr<[u8]>> = EndianReader::new(buf, e);
            inv(&base, &base, &data, 0, L);
            let r = base.range(s..s + n);
            inv(&r, &base, &data, s, n);
            let mut c = Ctx { data: &data[..], base, r, m: EndianSlice::new(&data[s..s + n], e), off: s, len: n };
            choose!(&mut c, $($f),+);
            let Ctx { base, r, m, off, len, .. } = c;
            // I re-established at exactly the expected window; the borrowed reader is at the same window
            inv(&r, &base, &data, off, len);
            assert!(m.len() == len);
            assert!(m.slice().as_ptr() == data.as_ptr().wrapping_add(off));
            // clone + drop in any order; the section reader may go first
            let cl = r.clone();
            let which: u8 = kani::any();
            let j: usize = kani::any();
            match which % 3 {
                0 => {
                    drop(r);
                    drop(base);
                    assert!(cl.len() == len && (j >= len || cl.bytes()[j] == data[off + j]));
                }
                1 => {
                    drop(cl);
                    drop(base);
                    assert!(r.len() == len && (j >= len || r.bytes()[j] == data[off + j]));
                }
                _ => {
                    drop(base);
                    assert!(j >= len || r.bytes()[j] == data[off + j]);
                    drop(r);
                    assert!(cl.len() == len && (j >= len || cl.bytes()[j] == data[off + j]));
                }
            }
        }
    };
}

macro_rules! steps {
    ($l:expr, $unwind:expr, $ptr:ident, $cursor:ident, $ints:ident, $read_slice:ident, $views:ident, $find:ident) => {
        step!($cursor, $l, $unwind, $ptr, s_skip, s_truncate, s_split, s_empty);
        step!($ints, $l, $unwind, $ptr, s_read_u32, s_read_u64);
        step!($read_slice, $l, $unwind, $ptr, s_read_slice);
        step!($views, $l, $unwind, $ptr, s_ids, s_ranges);
        step!($find, $l, $unwind, $ptr, s_find);
    };
}
steps!(16, 20, Rc, k_subrange_step_rc16_cursor, k_subrange_step_rc16_ints, k_subrange_step_rc16_read_slice, k_subrange_step_rc16_views,
       k_subrange_step_rc16_find);
steps!(32, 36, Arc, k_subrange_step_arc32_cursor, k_subrange_step_arc32_ints, k_subrange_step_arc32_read_slice, k_subrange_step_arc32_views,
       k_subrange_step_arc32_find);
