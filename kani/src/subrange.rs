//! K-SUBRANGE (C10, C01): inductive step for the `unsafe` `SubRange` behind `EndianReader` (DESIGN.md 6 C10, probe P23).
//!
//! Invariant I(r): `r` is the window [off, off+len) of its shared buffer, `off + len <= buffer length`
//! (`SubRange.ptr == bytes.as_ptr() + off`, `SubRange.len == len`).
//! Base: `EndianReader::new(buf)` is the window [0, buf.len()).
//! Step (these harnesses): from an ARBITRARY state satisfying I — every such state is `new(buf).range(s..s+n)` for
//! some s, n with s + n <= buf.len(), which is how the harness builds it — apply ONE arbitrary operation with
//! arbitrary arguments.  Checked: (1) CBMC's pointer checks on every `ptr.add` / `slice::from_raw_parts` of the real
//! unsafe code (no out-of-allocation pointer, no dangling dereference), (2) I holds again for the reader and for every
//! reader the operation hands back, at exactly the expected window, (3) results and remaining bytes equal those of the
//! borrowed `EndianSlice` on the same window (reader kinds agree), (4) the bytes stay readable after clone + drop of the
//! original / of the clone / of the section reader in either order.
//! Complete in the operation and its arguments; bounded in the buffer length (16 bytes, `Rc<[u8]>`; thorough tier:
//! 32 bytes, `Arc<[u8]>`).  `Rc`/`Arc` themselves are dependencies (their code is executed by CBMC here, but no claim
//! is made about them beyond these runs).
use crate::eslice::any_endian;
use gimli::{EndianReader, EndianSlice, Error, Reader, ReaderOffsetId, RunTimeEndian};
use std::rc::Rc;
use std::sync::Arc;

type ER<T> = EndianReader<RunTimeEndian, T>;

/// I(r) at an expected window: r is exactly [off, off+len) of base's buffer
macro_rules! inv {
    ($r:expr, $base:expr, $l:expr, $off:expr, $len:expr) => {{
        let off: usize = $off;
        let len: usize = $len;
        assert!(off <= $l && len <= $l - off);
        assert!($r.len() == len);
        assert!($r.bytes().len() == len);
        assert!($r.offset_from(&$base) == off);
        assert!($r.bytes().as_ptr() == $base.bytes().as_ptr().wrapping_add(off));
    }};
}

macro_rules! step {
    ($name:ident, $l:expr, $unwind:expr, $ptr:ident, $ops:expr) => {
        #[kani::proof]
        #[kani::unwind($unwind)]
        fn $name() {
            const L: usize = $l;
            let data: [u8; L] = kani::any();
            let e = any_endian();
            let buf: $ptr<[u8]> = $ptr::from(&data[..]);
            let s: usize = kani::any();
            let n: usize = kani::any();
            kani::assume(s <= L && n <= L - s);
            let base: ER<$ptr<[u8]>> = EndianReader::new(buf, e);
            inv!(base, base, L, 0, L);
            let mut r = base.range(s..s + n);
            let mut m = EndianSlice::new(&data[s..s + n], e);
            inv!(r, base, L, s, n);
            assert!(r.bytes() == m.slice());
            let arg: usize = kani::any();
            let op: u8 = kani::any();
            kani::assume(op < 5);
            // expected window after the operation
            let (mut off2, mut len2) = (s, n);
            match $ops * 5 + op {
                0 => {
                    let a = r.skip(arg);
                    let b = m.skip(arg);
                    assert!(a.is_ok() == b.is_ok() && a.is_ok() == (arg <= n));
                    if a.is_ok() {
                        off2 = s + arg;
                        len2 = n - arg;
                    }
                }
                1 => {
                    let a = r.truncate(arg);
                    let b = m.truncate(arg);
                    assert!(a.is_ok() == b.is_ok() && a.is_ok() == (arg <= n));
                    if a.is_ok() {
                        len2 = arg;
                    }
                }
                2 => {
                    let a = r.split(arg);
                    let b = m.split(arg);
                    assert!(a.is_ok() == b.is_ok() && a.is_ok() == (arg <= n));
                    if let (Ok(a), Ok(b)) = (a, b) {
                        assert!(a.bytes() == b.slice());
                        inv!(a, base, L, s, arg);
                        off2 = s + arg;
                        len2 = n - arg;
                        // the head outlives the reader it was split from
                        if kani::any() {
                            drop(r);
                            assert!(a.bytes() == b.slice());
                            return;
                        }
                    }
                }
                3 => {
                    r.empty();
                    m.empty();
                    assert!(r.is_empty());
                    len2 = 0;
                }
                4 => {
                    let a = r.read_u32();
                    let b = m.read_u32();
                    assert!(a.is_ok() == (n >= 4));
                    match (a, b) {
                        (Ok(a), Ok(b)) => {
                            assert!(a == b);
                            off2 = s + 4;
                            len2 = n - 4;
                        }
                        (Err(_), Err(_)) => {}
                        _ => assert!(false),
                    }
                }
                5 => {
                    // read_slice(buf) with a symbolic length 0..=9
                    let k = arg;
                    kani::assume(k <= 9);
                    let mut b1 = [0u8; 9];
                    let mut b2 = [0u8; 9];
                    let a = r.read_slice(&mut b1[..k]);
                    let b = m.read_slice(&mut b2[..k]);
                    assert!(a.is_ok() == b.is_ok() && a.is_ok() == (k <= n));
                    if a.is_ok() {
                        assert!(b1[..k] == data[s..s + k]);
                        off2 = s + k;
                        len2 = n - k;
                    }
                }
                6 => {
                    let byte = arg as u8;
                    let a = r.find(byte);
                    let b = Reader::find(&m, byte);
                    match (a, b) {
                        (Ok(i), Ok(j)) => {
                            assert!(i == j && i < n && data[s + i] == byte);
                        }
                        (Err(Error::UnexpectedEof(id)), Err(_)) => {
                            assert!(base.lookup_offset_id(id) == Some(s));
                        }
                        _ => assert!(false),
                    }
                }
                7 => {
                    // offset ids: round trip through the section reader, through the reader itself, and for arbitrary ids
                    let id = r.offset_id();
                    assert!(base.lookup_offset_id(id) == Some(s));
                    assert!(r.lookup_offset_id(id) == Some(0));
                    let x = arg as u64;
                    let start = r.bytes().as_ptr() as u64;
                    match r.lookup_offset_id(ReaderOffsetId(x)) {
                        Some(k) => assert!(k <= n && x == start + k as u64),
                        None => assert!(x < start || x > start + n as u64),
                    }
                }
                8 => {
                    // a window of the window (range / range_from / range_to) and offset_from between windows
                    let s2 = arg;
                    let n2: usize = kani::any();
                    kani::assume(s2 <= n && n2 <= n - s2);
                    let w = r.range(s2..s2 + n2);
                    inv!(w, base, L, s + s2, n2);
                    assert!(w.offset_from(&r) == s2);
                    assert!(w.bytes() == m.range(s2..s2 + n2).slice());
                    let f = r.range_from(s2..);
                    inv!(f, base, L, s + s2, n - s2);
                    let t = r.range_to(..s2);
                    inv!(t, base, L, s, s2);
                    drop(r);
                    assert!(w.bytes() == m.range(s2..s2 + n2).slice());
                    return;
                }
                _ => {
                    // read_null_terminated_slice = find + split + skip
                    let a = r.read_null_terminated_slice();
                    let b = m.read_null_terminated_slice();
                    assert!(a.is_ok() == b.is_ok());
                    if let (Ok(a), Ok(b)) = (a, b) {
                        assert!(a.bytes() == b.slice());
                        let i = a.len();
                        inv!(a, base, L, s, i);
                        off2 = s + i + 1;
                        len2 = n - i - 1;
                    }
                }
            }
            // I re-established at exactly the expected window; same remaining bytes as the borrowed reader
            inv!(r, base, L, off2, len2);
            assert!(r.bytes() == m.slice());
            // clone + drop, both orders; the section reader may go first
            let c = r.clone();
            assert!(c == r);
            let which: u8 = kani::any();
            match which % 3 {
                0 => {
                    drop(r);
                    drop(base);
                    assert!(c.bytes() == m.slice());
                }
                1 => {
                    drop(c);
                    drop(base);
                    assert!(r.bytes() == m.slice());
                }
                _ => {
                    drop(base);
                    assert!(r.bytes() == m.slice());
                    drop(r);
                    assert!(c.bytes() == m.slice());
                }
            }
        }
    };
}

// ops 0..5: skip / truncate / split / empty / read_u32 ; ops 5..10: read_slice / find / offset ids / sub-windows / null-terminated
step!(k_subrange_step_rc16_cursor, 16, 20, Rc, 0);
step!(k_subrange_step_rc16_views, 16, 20, Rc, 1);
step!(k_subrange_step_arc32_cursor, 32, 36, Arc, 0);
step!(k_subrange_step_arc32_views, 32, 36, Arc, 1);
