//! K-ESLICE (C10, C01): the POSITIONAL half of the Reader contract on the borrowed reader `EndianSlice`.
//!
//! Verus models `&[u8]` as a pure sequence, so the batch `eslice` proves only the content/consumption/bounds clauses of
//! `impl Reader for EndianSlice`; that a result *is the stated window of the original section* (start offset, pointer
//! identity = zero copy, offset ids) is checked here on real pointers.
//!
//! State space: the reader under test is an ARBITRARY window `[s, s+n)` (symbolic s, n) of a fully symbolic 16-byte
//! section, i.e. every state a reader over a <= 16-byte section can be in; one operation with arbitrary arguments is
//! applied.  `at(r, base, off, len)` is the positional invariant "r is exactly the window [off, off+len) of base":
//! `offset_from` (trait and inherent), `len`, pointer identity of `slice()`, containment in the section.
//! All harnesses are bounded(16 bytes) (section length <= 16; the pointer arithmetic under test does not depend on the
//! data, but the bound on the length is real).
use gimli::{EndianSlice, Endianity, Error, Format, Reader, ReaderOffsetId, RunTimeEndian};
use std::borrow::Cow;

pub const L: usize = 16;
type S<'a> = EndianSlice<'a, RunTimeEndian>;

pub fn any_endian() -> RunTimeEndian {
    if kani::any() {
        RunTimeEndian::Big
    } else {
        RunTimeEndian::Little
    }
}

/// an arbitrary window [s, s+n) of a section of L bytes
pub fn any_window(l: usize) -> (usize, usize) {
    let s: usize = kani::any();
    let n: usize = kani::any();
    kani::assume(s <= l && n <= l - s);
    (s, n)
}

/// positional invariant: `r` is exactly the window [off, off+len) of `base` (same memory, nothing copied)
fn at(r: &S<'_>, base: &S<'_>, off: usize, len: usize) {
    assert!(off <= base.len() && len <= base.len() - off);
    assert!(r.len() == len);
    assert!(r.is_empty() == (len == 0));
    assert!(Reader::offset_from(r, base) == off);
    assert!(EndianSlice::offset_from(r, *base) == off);
    assert!(r.slice().as_ptr() == base.slice().as_ptr().wrapping_add(off));
    assert!(r.slice().len() == len);
    assert!(r.endian() == base.endian());
}

fn eof_at(e: Error, base: &S<'_>, off: usize) -> bool {
    // the error names the position at which input ran out: an offset id that maps back to `off`
    match e {
        Error::UnexpectedEof(id) => base.lookup_offset_id(id) == Some(off),
        _ => false,
    }
}

/// the window constructors themselves (`range`, `range_from`, `range_to`, `split_at`)
#[kani::proof]
#[kani::unwind(4)]
fn k_eslice_range() {
    let data: [u8; L] = kani::any();
    let base = EndianSlice::new(&data[..], any_endian());
    at(&base, &base, 0, L);
    let (s, n) = any_window(L);
    let r = base.range(s..s + n);
    at(&r, &base, s, n);
    // a window of a window
    let (s2, n2) = any_window(n);
    at(&r.range(s2..s2 + n2), &base, s + s2, n2);
    at(&r.range_from(s2..), &base, s + s2, n - s2);
    at(&r.range_to(..s2), &base, s, s2);
    let (a, b) = r.split_at(s2);
    at(&a, &base, s, s2);
    at(&b, &base, s + s2, n - s2);
}

#[kani::proof]
#[kani::unwind(4)]
fn k_eslice_skip() {
    let data: [u8; L] = kani::any();
    let base = EndianSlice::new(&data[..], any_endian());
    let (s, n) = any_window(L);
    let mut r = base.range(s..s + n);
    let a: usize = kani::any();
    match r.skip(a) {
        Ok(()) => {
            assert!(a <= n);
            at(&r, &base, s + a, n - a);
        }
        Err(e) => {
            assert!(a > n);
            assert!(eof_at(e, &base, s));
            at(&r, &base, s, n);
        }
    }
}

#[kani::proof]
#[kani::unwind(4)]
fn k_eslice_truncate() {
    let data: [u8; L] = kani::any();
    let base = EndianSlice::new(&data[..], any_endian());
    let (s, n) = any_window(L);
    let mut r = base.range(s..s + n);
    let a: usize = kani::any();
    match r.truncate(a) {
        Ok(()) => {
            assert!(a <= n);
            at(&r, &base, s, a);
        }
        Err(e) => {
            assert!(a > n);
            assert!(eof_at(e, &base, s));
            at(&r, &base, s, n);
        }
    }
}

#[kani::proof]
#[kani::unwind(4)]
fn k_eslice_split() {
    let data: [u8; L] = kani::any();
    let base = EndianSlice::new(&data[..], any_endian());
    let (s, n) = any_window(L);
    let mut r = base.range(s..s + n);
    let a: usize = kani::any();
    match r.split(a) {
        Ok(head) => {
            assert!(a <= n);
            at(&head, &base, s, a);
            at(&r, &base, s + a, n - a);
        }
        Err(e) => {
            assert!(a > n);
            assert!(eof_at(e, &base, s));
            at(&r, &base, s, n);
        }
    }
}

/// `empty()` keeps the position: the emptied reader is the window [s, s) of the section (regression harness for the
/// fixed finding `EndianSlice::empty` = `self.slice = &[]`, native/src/bin/f_relocate_1.rs; contract `trunc(O, F, 0)`)
#[kani::proof]
#[kani::unwind(4)]
fn k_eslice_empty_position() {
    let data: [u8; L] = kani::any();
    let base = EndianSlice::new(&data[..], any_endian());
    let (s, n) = any_window(L);
    let mut r = base.range(s..s + n);
    r.empty();
    at(&r, &base, s, 0);
    // and errors raised on the emptied reader name that position
    match r.read_u8() {
        Err(e) => assert!(eof_at(e, &base, s)),
        Ok(_) => assert!(false),
    }
}

/// after `empty()`: length zero, endianity kept, every read fails without panicking, zero-length operations succeed
#[kani::proof]
#[kani::unwind(4)]
fn k_eslice_after_empty() {
    let data: [u8; L] = kani::any();
    let e = any_endian();
    let base = EndianSlice::new(&data[..], e);
    let (s, n) = any_window(L);
    let mut r = base.range(s..s + n);
    r.empty();
    assert!(r.len() == 0 && r.is_empty() && r.slice().is_empty());
    assert!(r.endian() == e);
    assert!(r.read_u8().is_err());
    assert!(r.skip(1).is_err());
    assert!(r.skip(0).is_ok());
    assert!(r.split(0).is_ok());
    assert!(Reader::find(&r, 0).is_err());
}

/// one read operation: (succeeded?, bytes the operation needs, the error)
type Rd = (bool, usize, Option<Error>);
fn rd_u8(r: &mut S<'_>) -> Rd { let x = r.read_u8(); (x.is_ok(), 1, x.err()) }
fn rd_i8(r: &mut S<'_>) -> Rd { let x = r.read_i8(); (x.is_ok(), 1, x.err()) }
fn rd_u16(r: &mut S<'_>) -> Rd { let x = r.read_u16(); (x.is_ok(), 2, x.err()) }
fn rd_i16(r: &mut S<'_>) -> Rd { let x = r.read_i16(); (x.is_ok(), 2, x.err()) }
fn rd_u32(r: &mut S<'_>) -> Rd { let x = r.read_u32(); (x.is_ok(), 4, x.err()) }
fn rd_i32(r: &mut S<'_>) -> Rd { let x = r.read_i32(); (x.is_ok(), 4, x.err()) }
fn rd_u64(r: &mut S<'_>) -> Rd { let x = r.read_u64(); (x.is_ok(), 8, x.err()) }
fn rd_i64(r: &mut S<'_>) -> Rd { let x = r.read_i64(); (x.is_ok(), 8, x.err()) }
fn rd_f32(r: &mut S<'_>) -> Rd { let x = r.read_f32(); (x.is_ok(), 4, x.err()) }
fn rd_f64(r: &mut S<'_>) -> Rd { let x = r.read_f64(); (x.is_ok(), 8, x.err()) }
fn rd_uint(r: &mut S<'_>) -> Rd {
    let k: usize = kani::any();
    kani::assume(1 <= k && k <= 8);
    let x = r.read_uint(k);
    (x.is_ok(), k, x.err())
}
fn rd_off32(r: &mut S<'_>) -> Rd { let x = r.read_offset(Format::Dwarf32); (x.is_ok(), 4, x.err()) }
fn rd_off64(r: &mut S<'_>) -> Rd { let x = r.read_offset(Format::Dwarf64); (x.is_ok(), 8, x.err()) }
fn rd_len32(r: &mut S<'_>) -> Rd { let x = r.read_length(Format::Dwarf32); (x.is_ok(), 4, x.err()) }
fn rd_len64(r: &mut S<'_>) -> Rd { let x = r.read_length(Format::Dwarf64); (x.is_ok(), 8, x.err()) }
fn rd_word32(r: &mut S<'_>) -> Rd { let x = r.read_word(Format::Dwarf32); (x.is_ok(), 4, x.err()) }
fn rd_word64(r: &mut S<'_>) -> Rd { let x = r.read_word(Format::Dwarf64); (x.is_ok(), 8, x.err()) }
fn rd_addr_size(r: &mut S<'_>) -> Rd {
    // read_address_size: one byte; an unsupported value is an error AFTER the byte was consumed -> excluded here
    let x = r.read_u8_array::<[u8; 1]>();
    (x.is_ok(), 1, x.err())
}
fn rd_array3(r: &mut S<'_>) -> Rd { let x = r.read_u8_array::<[u8; 3]>(); (x.is_ok(), 3, x.err()) }

/// if-else chain over the listed operations (only these are compiled into the harness)
macro_rules! choose {
    ($r:expr, $last:ident) => { $last($r) };
    ($r:expr, $f:ident, $($rest:ident),+) => { if kani::any() { $f($r) } else { choose!($r, $($rest),+) } };
}
pub(crate) use choose;

/// fixed-width reads: on success the reader has advanced by exactly k bytes inside the section, on failure it has not
/// moved and the error names the position (values are K-PRIM's business).
macro_rules! reads_position {
    ($name:ident, $($f:ident),+) => {
        #[kani::proof]
        #[kani::unwind(20)]
        fn $name() {
            let data: [u8; L] = kani::any();
            let base = EndianSlice::new(&data[..], any_endian());
            let (s, n) = any_window(L);
            let mut r = base.range(s..s + n);
            let (ok, k, err): Rd = choose!(&mut r, $($f),+);
            assert!(ok == (k <= n));
            if ok {
                at(&r, &base, s + k, n - k);
            } else {
                assert!(eof_at(err.unwrap(), &base, s));
                at(&r, &base, s, n);
            }
        }
    };
}
reads_position!(k_eslice_reads_position_8_16, rd_u8, rd_i8, rd_u16, rd_i16, rd_array3, rd_addr_size);
reads_position!(k_eslice_reads_position_32_64, rd_u32, rd_i32, rd_u64, rd_i64, rd_f32, rd_f64);
reads_position!(k_eslice_reads_position_word, rd_off32, rd_off64, rd_len32, rd_len64, rd_word32, rd_word64);
reads_position!(k_eslice_reads_position_uint, rd_uint);

/// sized reads (`read_address`, `read_sized_offset`) for EVERY size byte: unsupported sizes are rejected without
/// consuming, supported ones advance by exactly `size`
#[kani::proof]
#[kani::unwind(20)]
fn k_eslice_sized_reads_position() {
    let data: [u8; L] = kani::any();
    let base = EndianSlice::new(&data[..], any_endian());
    let (s, n) = any_window(L);
    let mut r = base.range(s..s + n);
    let size: u8 = kani::any();
    let sized = size == 1 || size == 2 || size == 4 || size == 8;
    let (ok, err) = if kani::any() {
        let x = r.read_address(size);
        if !sized {
            assert!(x == Err(Error::UnsupportedAddressSize(size)));
        }
        (x.is_ok(), x.err())
    } else {
        let x = r.read_sized_offset(size);
        if !sized {
            assert!(x == Err(Error::UnsupportedOffsetSize(size)));
        }
        (x.is_ok(), x.err())
    };
    let k = size as usize;
    assert!(ok == (sized && k <= n));
    if ok {
        at(&r, &base, s + k, n - k);
    } else {
        if sized {
            assert!(eof_at(err.unwrap(), &base, s));
        }
        at(&r, &base, s, n);
    }
}

/// `read_slice(buf)`: copies exactly the next `buf.len()` bytes of the window and advances by that much
#[kani::proof]
#[kani::unwind(20)]
fn k_eslice_read_slice_position() {
    let data: [u8; L] = kani::any();
    let base = EndianSlice::new(&data[..], any_endian());
    let (s, n) = any_window(L);
    let mut r = base.range(s..s + n);
    let mut buf = [0u8; 9];
    let k: usize = kani::any();
    kani::assume(k <= 9);
    let j: usize = kani::any();
    match r.read_slice(&mut buf[..k]) {
        Ok(()) => {
            assert!(k <= n);
            assert!(j >= k || buf[j] == data[s + j]);
            at(&r, &base, s + k, n - k);
        }
        Err(e) => {
            assert!(k > n);
            assert!(eof_at(e, &base, s));
            at(&r, &base, s, n);
        }
    }
}

/// `read_initial_length` consumes 4 or 12 bytes (or fails) and never leaves the window
#[kani::proof]
#[kani::unwind(20)]
fn k_eslice_initial_length_position() {
    let data: [u8; L] = kani::any();
    let base = EndianSlice::new(&data[..], any_endian());
    let (s, n) = any_window(L);
    let mut r = base.range(s..s + n);
    match r.read_initial_length() {
        Ok((_, Format::Dwarf32)) => at(&r, &base, s + 4, n - 4),
        Ok((_, Format::Dwarf64)) => at(&r, &base, s + 12, n - 12),
        Err(_) => {
            // an error may be reported after the first word was consumed, but the end of the window is fixed
            let off = Reader::offset_from(&r, &base);
            assert!(s <= off && off + r.len() == s + n);
            assert!(r.slice().as_ptr() == base.slice().as_ptr().wrapping_add(off));
        }
    }
}

/// LEB128 reads: the universal parser frame (`within`): only the start moves, forward, the end stays; on success the
/// start has moved just past the FIRST terminating byte (values: K-LEB)
macro_rules! leb_position {
    ($name:ident, |$r:ident| $e:expr) => {
        #[kani::proof]
        #[kani::unwind(20)]
        fn $name() {
            let data: [u8; L] = kani::any();
            let base = EndianSlice::new(&data[..], any_endian());
            let (s, n) = any_window(L);
            let mut r = base.range(s..s + n);
            let ok = { let $r = &mut r; $e }.is_ok();
            let off = Reader::offset_from(&r, &base);
            assert!(s <= off && off + r.len() == s + n);
            assert!(r.slice().as_ptr() == base.slice().as_ptr().wrapping_add(off));
            if ok {
                assert!(off > s);
                assert!(data[off - 1] & 0x80 == 0);
                // every earlier byte is a continuation byte (j arbitrary)
                let j: usize = kani::any();
                assert!(!(s <= j && j < off - 1) || data[j] & 0x80 != 0);
            }
        }
    };
}
leb_position!(k_eslice_leb_position_uleb, |r| r.read_uleb128());
leb_position!(k_eslice_leb_position_sleb, |r| r.read_sleb128());
leb_position!(k_eslice_leb_position_skip, |r| r.skip_leb128());
leb_position!(k_eslice_leb_position_u16, |r| r.read_uleb128_u16());

/// offset ids: an id obtained at ANY position of the section maps back to that position through the section reader,
/// and through any other window iff the position lies in it (inclusive end)
#[kani::proof]
#[kani::unwind(4)]
fn k_eslice_offset_id_roundtrip() {
    let data: [u8; L] = kani::any();
    let base = EndianSlice::new(&data[..], any_endian());
    let (s, n) = any_window(L);
    let r = base.range(s..s + n);
    let id = r.offset_id();
    assert!(base.lookup_offset_id(id) == Some(s));
    assert!(r.lookup_offset_id(id) == Some(0));
    let (s2, n2) = any_window(L);
    let w = base.range(s2..s2 + n2);
    let got = w.lookup_offset_id(id);
    if s2 <= s && s <= s2 + n2 {
        assert!(got == Some(s - s2));
    } else {
        assert!(got.is_none());
    }
    // an id taken at EVERY position p in 0..=n of the window -- including exactly its end (p == n) and the end of
    // the section (s + p == L) -- maps back to p through the window and to s + p through the section
    let p: usize = kani::any();
    kani::assume(p <= n);
    let idp = r.range_from(p..).offset_id();
    assert!(r.lookup_offset_id(idp) == Some(p));
    assert!(base.lookup_offset_id(idp) == Some(s + p));
    let end_id = r.range_from(n..).offset_id();
    assert!(r.lookup_offset_id(end_id) == Some(n));
    assert!(base.lookup_offset_id(base.range_from(L..).offset_id()) == Some(L));
    // the same id is reached by consuming the window
    let mut q = r;
    q.skip(p).unwrap();
    assert!(q.offset_id() == idp);
    // the id does not depend on the window length, a clone has the same id
    assert!(base.range(s..L).offset_id() == id);
    let c = r;
    assert!(c.offset_id() == id);
}

/// arbitrary 64-bit ids: exactly the addresses of the window (inclusive end) are mapped, to their offset
#[kani::proof]
#[kani::unwind(4)]
fn k_eslice_lookup_offset_id_arbitrary() {
    let data: [u8; L] = kani::any();
    let base = EndianSlice::new(&data[..], any_endian());
    let (s, n) = any_window(L);
    let r = base.range(s..s + n);
    let x: u64 = kani::any();
    let start = r.slice().as_ptr() as u64;
    match r.lookup_offset_id(ReaderOffsetId(x)) {
        Some(k) => {
            assert!(k <= n);
            assert!(x == start + k as u64);
            // and it is the id a reader positioned there reports
            assert!(r.range_from(k..).offset_id() == ReaderOffsetId(x));
        }
        None => assert!(x < start || x > start + n as u64),
    }
}

/// `find`: the first occurrence inside the window, or an error at the window's position; the reader does not move
#[kani::proof]
#[kani::unwind(20)]
fn k_eslice_find() {
    let data: [u8; L] = kani::any();
    let base = EndianSlice::new(&data[..], any_endian());
    let (s, n) = any_window(L);
    let r = base.range(s..s + n);
    let b: u8 = kani::any();
    let j: usize = kani::any();
    match Reader::find(&r, b) {
        Ok(i) => {
            assert!(i < n && data[s + i] == b);
            // no earlier occurrence (j arbitrary)
            assert!(!(j < i && data[s + j] == b));
            assert!(EndianSlice::find(&r, b) == Some(i));
        }
        Err(e) => {
            assert!(!(j < n && data[s + j] == b));
            assert!(eof_at(e, &base, s));
            assert!(EndianSlice::find(&r, b).is_none());
        }
    }
    at(&r, &base, s, n);
}

/// `read_null_terminated_slice`: the result is the window up to the first NUL, the reader continues after the NUL
#[kani::proof]
#[kani::unwind(20)]
fn k_eslice_null_terminated() {
    let data: [u8; L] = kani::any();
    let base = EndianSlice::new(&data[..], any_endian());
    let (s, n) = any_window(L);
    let mut r = base.range(s..s + n);
    let j: usize = kani::any();
    match r.read_null_terminated_slice() {
        Ok(t) => {
            let i = t.len();
            assert!(i < n && data[s + i] == 0);
            assert!(!(j < i && data[s + j] == 0));
            at(&t, &base, s, i);
            at(&r, &base, s + i + 1, n - i - 1);
        }
        Err(e) => {
            assert!(!(j < n && data[s + j] == 0));
            assert!(eof_at(e, &base, s));
            at(&r, &base, s, n);
        }
    }
}

/// `to_slice` borrows (no copy) exactly the window; `slice()`, `Deref`, Copy/Clone preserve the view and are independent
#[kani::proof]
#[kani::unwind(20)]
fn k_eslice_to_slice_clone() {
    let data: [u8; L] = kani::any();
    let base = EndianSlice::new(&data[..], any_endian());
    let (s, n) = any_window(L);
    let mut r = base.range(s..s + n);
    match r.to_slice() {
        Ok(Cow::Borrowed(b)) => {
            assert!(b.as_ptr() == data.as_ptr().wrapping_add(s) && b.len() == n);
        }
        _ => assert!(false),
    }
    let d: &[u8] = &r;
    assert!(d.as_ptr() == data.as_ptr().wrapping_add(s) && d.len() == n);
    #[allow(clippy::clone_on_copy)]
    let c = r.clone();
    let c2 = r;
    at(&c, &base, s, n);
    at(&c2, &base, s, n);
    assert!(c == r);
    // mutating the original leaves the copies where they were
    let a: usize = kani::any();
    kani::assume(a <= n);
    r.skip(a).unwrap();
    at(&c, &base, s, n);
    at(&c2, &base, s, n);
    at(&r, &base, s + a, n - a);
}

/// `to_string` / `to_string_lossy` on a window of ASCII bytes borrow the window (bounded: 4-byte windows)
#[kani::proof]
#[kani::unwind(8)]
fn k_eslice_to_string_ascii() {
    let data: [u8; L] = kani::any();
    let base = EndianSlice::new(&data[..], any_endian());
    let s: usize = kani::any();
    let n: usize = kani::any();
    kani::assume(s <= L && n <= L - s && n <= 4);
    let r = base.range(s..s + n);
    let mut i = 0;
    while i < n {
        kani::assume(data[s + i] < 0x80);
        i += 1;
    }
    match EndianSlice::to_string(&r) {
        Ok(t) => assert!(t.as_ptr() == data.as_ptr().wrapping_add(s) && t.len() == n),
        Err(_) => assert!(false),
    }
}
