//! Kani harnesses on the real gimli crate (DESIGN.md 3.2). Every harness is registered in ../harnesses.json
//! with its group, properties and completeness class.
#![allow(dead_code, unused_imports)]
extern crate alloc;

/// the real `src/read/util.rs` (ArrayVec, unsafe) compiled into this crate
#[cfg(kani)]
#[path = "/repo/src/read/util.rs"]
mod util;

#[cfg(kani)]
mod refs;
#[cfg(kani)]
mod leb;
#[cfg(kani)]
mod prim;
#[cfg(kani)]
mod value;
#[cfg(kani)]
mod avec;
#[cfg(kani)]
mod eslice;
#[cfg(kani)]
mod subrange;
#[cfg(kani)]
mod reloc;
#[cfg(kani)]
mod relocparse;
#[cfg(kani)]
mod wprim;
#[cfg(kani)]
mod uctx;
#[cfg(kani)]
mod ehhdr;
/// K-LINEGEN: `include!`s src/gen/linegen_items.rs, regenerated from /repo by `python3 kani/gen_linegen.py` (gitignored)
#[cfg(all(kani, feature = "linegen"))]
mod linegen;
/// K-EXPRW: `include!`s src/gen/exprw_items.rs, regenerated from /repo by `python3 kani/gen_exprw.py` (gitignored)
#[cfg(all(kani, feature = "exprw"))]
mod exprw;
