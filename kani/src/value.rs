//! K-VALUE: every `Value` operation against a reference written from DWARF 5 section 2.5.1.4 (arithmetic and
//! logical operations): generic values wrap at the address size and are compared MODULO the address mask;
//! `div` and the comparisons are signed, `mod` and `shr` unsigned, `shra` arithmetic, shifts >= width give 0
//! (or -1 for a negative `shra`), division by zero is the error, typed operands must have equal types.
//! All harnesses are loop-free over fully symbolic operands: complete.
use gimli::{Error, Value, ValueType};

fn any_size() -> u32 {
    let size: u8 = kani::any();
    kani::assume(size == 1 || size == 2 || size == 4 || size == 8);
    size as u32
}
fn mask_of(size: u32) -> u64 {
    !0u64 >> (64 - size * 8)
}
/// value of a generic operand as a signed number of `bits` bits
fn sx(v: u64, bits: u32) -> i128 {
    let m = (v as u128) & ((1u128 << bits) - 1);
    if (m >> (bits - 1)) & 1 == 1 { m as i128 - (1i128 << bits) } else { m as i128 }
}
fn ux(v: u64, bits: u32) -> u128 {
    (v as u128) & ((1u128 << bits) - 1)
}
fn generic(r: gimli::Result<Value>) -> u64 {
    match r {
        Ok(Value::Generic(x)) => x,
        _ => panic!("generic result expected"),
    }
}
/// equality modulo the address size
fn eqm(got: u64, want: i128, bits: u32) -> bool {
    let m = (1u128 << bits) - 1;
    (got as u128) & m == (want as u128) & m
}

#[kani::proof]
fn k_value_generic_addsubmul() {
    let (a, b): (u64, u64) = (kani::any(), kani::any());
    let size = any_size();
    let (bits, mask) = (size * 8, mask_of(size));
    let (va, vb) = (Value::Generic(a), Value::Generic(b));
    assert!(eqm(generic(va.add(vb, mask)), ux(a, bits) as i128 + ux(b, bits) as i128, bits));
    assert!(eqm(generic(va.sub(vb, mask)), ux(a, bits) as i128 - ux(b, bits) as i128, bits));
}

/// multiplication is checked at 32-bit operand width symbolically and at 64 bits through the low half identity
#[kani::proof]
fn k_value_generic_mul() {
    let (a, b): (u32, u32) = (kani::any(), kani::any());
    let size = any_size();
    let (bits, mask) = (size * 8, mask_of(size));
    let r = generic(Value::Generic(a as u64).mul(Value::Generic(b as u64), mask));
    // 32x32 -> 64 bits cannot overflow: the reference product is exact
    assert!(r & mask == ((a as u64) * (b as u64)) & mask);
}

/// signed division: arbitrary garbage above the address size; address sizes 1 and 2 exhaustively (the reference is
/// computed at 32 bits; gimli's own 64-bit divider is the cost for CBMC)
#[kani::proof]
fn k_value_generic_div() {
    let (a, b): (u64, u64) = (kani::any(), kani::any());
    let size = any_size();
    kani::assume(size <= 2);
    let (bits, mask) = (size * 8, mask_of(size));
    let (va, vb) = (Value::Generic(a), Value::Generic(b));
    let sa = sx(a, bits) as i32;
    let sb = sx(b, bits) as i32;
    let d = va.div(vb, mask);
    if sb == 0 {
        assert!(d == Err(Error::DivisionByZero));
    } else {
        // signed, truncating towards zero
        assert!(eqm(generic(d), (sa / sb) as i128, bits));
    }
}

/// unsigned modulus: operands reduced to the address size first (bits above it must not matter)
#[kani::proof]
fn k_value_generic_rem() {
    let (a, b): (u64, u64) = (kani::any(), kani::any());
    let size = any_size();
    kani::assume(size <= 2);
    let (bits, mask) = (size * 8, mask_of(size));
    let (va, vb) = (Value::Generic(a), Value::Generic(b));
    let r = va.rem(vb, mask);
    let (ua, ub) = (ux(a, bits) as u32, ux(b, bits) as u32);
    if ub == 0 {
        assert!(r == Err(Error::DivisionByZero));
    } else {
        assert!(eqm(generic(r), (ua % ub) as i128, bits));
    }
}

#[kani::proof]
fn k_value_generic_bitwise_unary() {
    let (a, b): (u64, u64) = (kani::any(), kani::any());
    let size = any_size();
    let (bits, mask) = (size * 8, mask_of(size));
    let (va, vb) = (Value::Generic(a), Value::Generic(b));
    assert!(eqm(generic(va.and(vb, mask)), (a & b) as i128, bits));
    assert!(eqm(generic(va.or(vb, mask)), (a | b) as i128, bits));
    assert!(eqm(generic(va.xor(vb, mask)), (a ^ b) as i128, bits));
    assert!(eqm(generic(va.not(mask)), (!a) as i128, bits));
    assert!(eqm(generic(va.neg(mask)), -sx(a, bits), bits));
    let s = sx(a, bits);
    assert!(eqm(generic(va.abs(mask)), if s < 0 { -s } else { s }, bits));
}

#[kani::proof]
fn k_value_generic_shifts() {
    let (a, n): (u64, u64) = (kani::any(), kani::any());
    let size = any_size();
    let (bits, mask) = (size * 8, mask_of(size));
    let (va, vn) = (Value::Generic(a), Value::Generic(n));
    let big = n >= bits as u64;
    let sh = if big { 0 } else { n as u32 };
    assert!(eqm(generic(va.shl(vn, mask)), if big { 0 } else { (ux(a, bits) << sh) as i128 }, bits));
    assert!(eqm(generic(va.shr(vn, mask)), if big { 0 } else { (ux(a, bits) >> sh) as i128 }, bits));
    let s = sx(a, bits);
    assert!(eqm(generic(va.shra(vn, mask)), if big { if s < 0 { -1 } else { 0 } } else { s >> sh }, bits));
}

#[kani::proof]
fn k_value_generic_compare() {
    let (a, b): (u64, u64) = (kani::any(), kani::any());
    let size = any_size();
    let (bits, mask) = (size * 8, mask_of(size));
    let (va, vb) = (Value::Generic(a), Value::Generic(b));
    let (sa, sb) = (sx(a, bits), sx(b, bits));
    assert!(va.eq(vb, mask) == Ok(Value::Generic((sa == sb) as u64)));
    assert!(va.ne(vb, mask) == Ok(Value::Generic((sa != sb) as u64)));
    assert!(va.lt(vb, mask) == Ok(Value::Generic((sa < sb) as u64)));
    assert!(va.le(vb, mask) == Ok(Value::Generic((sa <= sb) as u64)));
    assert!(va.gt(vb, mask) == Ok(Value::Generic((sa > sb) as u64)));
    assert!(va.ge(vb, mask) == Ok(Value::Generic((sa >= sb) as u64)));
}

macro_rules! typed {
    ($name:ident, $var:ident, $t:ty, $signed:expr) => {
        #[kani::proof]
        fn $name() {
            let (a, b): ($t, $t) = (kani::any(), kani::any());
            let mask = mask_of(any_size());
            let (va, vb) = (Value::$var(a), Value::$var(b));
            assert!(va.add(vb, mask) == Ok(Value::$var(a.wrapping_add(b))));
            assert!(va.sub(vb, mask) == Ok(Value::$var(a.wrapping_sub(b))));
            assert!(va.and(vb, mask) == Ok(Value::$var(a & b)));
            assert!(va.or(vb, mask) == Ok(Value::$var(a | b)));
            assert!(va.xor(vb, mask) == Ok(Value::$var(a ^ b)));
            assert!(va.not(mask) == Ok(Value::$var(!a)));
            assert!(va.eq(vb, mask) == Ok(Value::Generic((a == b) as u64)));
            assert!(va.ne(vb, mask) == Ok(Value::Generic((a != b) as u64)));
            assert!(va.lt(vb, mask) == Ok(Value::Generic((a < b) as u64)));
            assert!(va.le(vb, mask) == Ok(Value::Generic((a <= b) as u64)));
            assert!(va.gt(vb, mask) == Ok(Value::Generic((a > b) as u64)));
            assert!(va.ge(vb, mask) == Ok(Value::Generic((a >= b) as u64)));
            // shifts: the count is the (non-negative) value of rhs; >= width gives 0 / sign fill
            let width = (core::mem::size_of::<$t>() * 8) as u64;
            #[allow(unused_comparisons)]
            let neg_count = b < 0;
            if neg_count {
                assert!(va.shl(vb, mask) == Err(Error::InvalidShiftExpression));
            } else {
                let n = b as u64;
                assert!(va.shl(vb, mask) == Ok(Value::$var(if n >= width { 0 } else { a << n })));
                if $signed {
                    #[allow(unused_comparisons)]
                    let fill: $t = if a < 0 { !0 } else { 0 };
                    assert!(va.shra(vb, mask) == Ok(Value::$var(if n >= width { fill } else { a >> n })));
                    assert!(va.shr(vb, mask) == Err(Error::UnsupportedTypeOperation));
                    assert!(va.neg(mask) == Ok(Value::$var(a.wrapping_neg())));
                } else {
                    assert!(va.shr(vb, mask) == Ok(Value::$var(if n >= width { 0 } else { a >> n })));
                    assert!(va.shra(vb, mask) == Err(Error::UnsupportedTypeOperation));
                    assert!(va.neg(mask) == Err(Error::UnsupportedTypeOperation));
                    assert!(va.abs(mask) == Ok(va));
                }
            }
            // mixing types is an error
            assert!(va.add(Value::Generic(b as u64), mask) == Err(Error::TypeMismatch));
            assert!(Value::Generic(a as u64).sub(vb, mask) == Err(Error::TypeMismatch));
        }
    };
}
typed!(k_value_typed_i8, I8, i8, true);
typed!(k_value_typed_u8, U8, u8, false);
typed!(k_value_typed_i16, I16, i16, true);
typed!(k_value_typed_u16, U16, u16, false);
typed!(k_value_typed_i32, I32, i32, true);
typed!(k_value_typed_u32, U32, u32, false);
typed!(k_value_typed_i64, I64, i64, true);
typed!(k_value_typed_u64, U64, u64, false);

macro_rules! typed_muldiv {
    ($name:ident, $var:ident, $t:ty) => {
        #[kani::proof]
        fn $name() {
            let (a, b): ($t, $t) = (kani::any(), kani::any());
            let mask = mask_of(any_size());
            let (va, vb) = (Value::$var(a), Value::$var(b));
            assert!(va.mul(vb, mask) == Ok(Value::$var(a.wrapping_mul(b))));
            if b == 0 {
                assert!(va.div(vb, mask) == Err(Error::DivisionByZero));
                assert!(va.rem(vb, mask) == Err(Error::DivisionByZero));
            } else {
                assert!(va.div(vb, mask) == Ok(Value::$var(a.wrapping_div(b))));
                assert!(va.rem(vb, mask) == Ok(Value::$var(a.wrapping_rem(b))));
            }
        }
    };
}
typed_muldiv!(k_value_muldiv_i8, I8, i8);
typed_muldiv!(k_value_muldiv_u8, U8, u8);
typed_muldiv!(k_value_muldiv_i16, I16, i16);
typed_muldiv!(k_value_muldiv_u16, U16, u16);

/// conversions: to_u64 / from_u64 / convert / reinterpret between integral types; value_type / bit_size
#[kani::proof]
fn k_value_convert_reinterpret() {
    let x: u64 = kani::any();
    let size = any_size();
    let (bits, mask) = (size * 8, mask_of(size));
    let tys = [ValueType::Generic, ValueType::I8, ValueType::U8, ValueType::I16, ValueType::U16, ValueType::I32,
               ValueType::U32, ValueType::I64, ValueType::U64];
    let i: usize = kani::any();
    let j: usize = kani::any();
    kani::assume(i < 9 && j < 9);
    let (from, to) = (tys[i], tys[j]);
    let v = Value::from_u64(from, x).unwrap();
    assert!(v.value_type() == from);
    let width = |t: ValueType| match t {
        ValueType::Generic => bits,
        ValueType::I8 | ValueType::U8 => 8,
        ValueType::I16 | ValueType::U16 => 16,
        ValueType::I32 | ValueType::U32 => 32,
        _ => 64,
    };
    assert!(from.bit_size(mask) == width(from));
    // to_u64: generic masked, signed types sign-extended, unsigned zero-extended
    let u = v.to_u64(mask).unwrap();
    let want: u64 = match from {
        ValueType::Generic => x & mask,
        ValueType::I8 => x as i8 as u64,
        ValueType::U8 => x as u8 as u64,
        ValueType::I16 => x as i16 as u64,
        ValueType::U16 => x as u16 as u64,
        ValueType::I32 => x as i32 as u64,
        ValueType::U32 => x as u32 as u64,
        _ => x,
    };
    assert!(u == want);
    // convert = from_u64(to, to_u64(v))
    assert!(v.convert(to, mask) == Value::from_u64(to, want));
    // reinterpret requires equal widths and preserves the bit pattern
    let r = v.reinterpret(to, mask);
    if width(from) != width(to) {
        assert!(r == Err(Error::TypeMismatch));
    } else {
        let back = r.unwrap().reinterpret(from, mask).unwrap();
        let m = if width(from) == 64 { !0u64 } else { (1u64 << width(from)) - 1 };
        assert!(back.to_u64(!0).unwrap() & m == v.to_u64(!0).unwrap() & m);
    }
}

/// floats: bit-exact agreement with the native operation (run with --no-overflow-checks: Kani's NaN checks flag every float op)
#[kani::proof]
fn k_value_float_f32() {
    let (a, b): (f32, f32) = (kani::any(), kani::any());
    let mask = !0u64;
    let (va, vb) = (Value::F32(a), Value::F32(b));
    let bits = |r: gimli::Result<Value>| match r {
        Ok(Value::F32(x)) => x.to_bits(),
        _ => panic!(),
    };
    assert!(bits(va.add(vb, mask)) == (a + b).to_bits());
    assert!(bits(va.sub(vb, mask)) == (a - b).to_bits());
    assert!(bits(va.neg(mask)) == (-a).to_bits());
    assert!(va.rem(vb, mask) == Err(Error::IntegralTypeRequired));
    assert!(va.and(vb, mask).is_err() && va.shl(vb, mask).is_err());
    assert!(va.add(Value::F64(b as f64), mask) == Err(Error::TypeMismatch));
    assert!(va.lt(vb, mask) == Ok(Value::Generic((a < b) as u64)));
    assert!(va.eq(vb, mask) == Ok(Value::Generic((a == b) as u64)));
}
