//! K-AVEC: the real `ArrayVec` (unsafe code in src/read/util.rs, compiled into this crate by #[path]) behaves as a
//! bounded sequence: from ANY reachable state (every sequence of at most CAP symbolic elements) one arbitrary operation
//! agrees with a plain-array model; CBMC's pointer checks cover the unsafe blocks. bounded(capacity 4).
use crate::util::ArrayVec;

const CAP: usize = 4;

struct Model {
    v: [u32; CAP + 1],
    n: usize,
}

fn agree<A: crate::util::ArrayLike<Item = u32>>(a: &ArrayVec<A>, m: &Model) {
    assert!(a.len() == m.n);
    let mut i = 0;
    while i < m.n {
        assert!(a[i] == m.v[i]);
        i += 1;
    }
}

fn step<A: crate::util::ArrayLike<Item = u32>>(growable: bool) {
    let mut a: ArrayVec<A> = ArrayVec::new();
    let mut m = Model { v: [0; CAP + 1], n: 0 };
    let n0: usize = kani::any();
    kani::assume(n0 <= CAP);
    let mut i = 0;
    while i < n0 {
        let x: u32 = kani::any();
        assert!(a.try_push(x).is_ok());
        m.v[i] = x;
        i += 1;
    }
    m.n = n0;
    agree(&a, &m);
    let op: u8 = kani::any();
    let x: u32 = kani::any();
    let idx: usize = kani::any();
    match op % 6 {
        0 => {
            let r = a.try_push(x);
            if m.n < CAP || growable {
                assert!(r.is_ok());
                m.v[m.n] = x;
                m.n += 1;
            } else {
                // fixed storage: CapacityFull exactly when len == capacity, contents untouched
                assert!(r.is_err());
            }
        }
        1 => {
            kani::assume(idx <= m.n); // documented precondition (assert!)
            let r = a.try_insert(idx, x);
            if m.n < CAP || growable {
                assert!(r.is_ok());
                let mut j = m.n;
                while j > idx {
                    m.v[j] = m.v[j - 1];
                    j -= 1;
                }
                m.v[idx] = x;
                m.n += 1;
            } else {
                assert!(r.is_err());
            }
        }
        2 => {
            let r = a.pop();
            if m.n == 0 {
                assert!(r.is_none());
            } else {
                m.n -= 1;
                assert!(r == Some(m.v[m.n]));
            }
        }
        3 => {
            kani::assume(m.n > 0 && idx < m.n); // documented precondition
            let r = a.swap_remove(idx);
            assert!(r == m.v[idx]);
            m.v[idx] = m.v[m.n - 1];
            m.n -= 1;
        }
        4 => {
            a.clear();
            m.n = 0;
        }
        _ => {
            let c = a.clone();
            assert!(c == a);
            agree(&c, &m);
            drop(c);
        }
    }
    if m.n <= CAP {
        agree(&a, &m);
    } else {
        assert!(a.len() == m.n && a[CAP] == m.v[CAP]);
    }
    drop(a);
}

#[kani::proof]
#[kani::unwind(20)]
fn k_avec_array_step() {
    step::<[u32; CAP]>(false);
}

#[kani::proof]
#[kani::unwind(20)]
fn k_avec_box_step() {
    step::<Box<[u32; CAP]>>(false);
}

#[kani::proof]
#[kani::unwind(20)]
fn k_avec_vec_step() {
    step::<Vec<u32>>(true);
}
