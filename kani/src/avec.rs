// placeholder
