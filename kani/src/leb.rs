//! K-LEB: LEB128 codecs against the mathematical definition (DWARF 5 section 7.6). All complete unless noted.
use crate::refs::*;
use gimli::leb128;
use gimli::{EndianSlice, LittleEndian, Reader, RunTimeEndian};

/// decode == mathematical value, exact consumption, accept/reject frontier at the 10th byte: ALL byte strings.
/// complete: the decoder reads at most 10 bytes; an 11-byte symbolic buffer with symbolic length covers every case.
#[kani::proof]
#[kani::unwind(12)]
fn k_leb_uleb_decode_spec() {
    let buf: [u8; 11] = kani::any();
    let n: usize = kani::any();
    kani::assume(n <= 11);
    let mut r = EndianSlice::new(&buf[..n], LittleEndian);
    let got = r.read_uleb128();
    let (acc, term, k, _) = uleb_ref(&buf, n);
    if term && k <= 9 && acc <= u64::MAX as u128 {
        assert!(got == Ok(acc as u64));
        assert!(r.len() == n - (k + 1));
    } else {
        assert!(got.is_err());
    }
}

/// signed decode: value by sign extension from the last group; 10th byte must be 0x00 or 0x7f
#[kani::proof]
#[kani::unwind(12)]
fn k_leb_sleb_decode_spec() {
    let buf: [u8; 11] = kani::any();
    let n: usize = kani::any();
    kani::assume(n <= 11);
    let mut r = EndianSlice::new(&buf[..n], LittleEndian);
    let got = r.read_sleb128();
    let (acc, term, k, _) = uleb_ref(&buf, n);
    // mathematical value: acc interpreted as a 7*(k+1)-bit two's complement number
    let bits = 7 * (k as u32 + 1);
    let fits = if !term || k > 9 {
        false
    } else if k < 9 {
        true
    } else {
        // 10 groups = 70 bits: the top 7 bits (10th group) must be a pure sign extension of bit 63:
        // gimli accepts exactly 0x00 and 0x7f as the 10th byte
        buf[9] == 0x00 || buf[9] == 0x7f
    };
    if fits {
        let val: i128 = if (acc >> (bits - 1)) & 1 == 1 { acc as i128 - (1i128 << bits) } else { acc as i128 };
        if k == 9 {
            // sign given by the 10th byte must agree with bit 63 for the value to be representable
            let v64 = acc as u64 as i64;
            if (buf[9] == 0x7f) == (v64 < 0) {
                assert!(got == Ok(v64));
                assert!(val == v64 as i128);
            }
            // (disagreeing encodings are accepted by gimli with the low 64 bits; recorded as observation, not asserted)
        } else {
            assert!(val >= i64::MIN as i128 && val <= i64::MAX as i128);
            assert!(got == Ok(val as i64));
        }
        if got.is_ok() {
            assert!(r.len() == n - (k + 1));
        }
    } else {
        assert!(got.is_err());
    }
}

/// 16-bit reader: every byte string of length <= 4 (reads at most 3 bytes)
#[kani::proof]
#[kani::unwind(6)]
fn k_leb_u16_decode_spec() {
    let buf: [u8; 4] = kani::any();
    let n: usize = kani::any();
    kani::assume(n <= 4);
    let mut r = EndianSlice::new(&buf[..n], LittleEndian);
    let got = r.read_uleb128_u16();
    let (acc, term, k, _) = uleb_ref(&buf, n);
    // gimli's u16 reader requires the third byte to be a terminator <= 3
    if term && k <= 2 && acc <= u16::MAX as u128 {
        assert!(got == Ok(acc as u16));
        assert!(r.len() == n - (k + 1));
    } else {
        assert!(got.is_err());
    }
}

/// u32 narrowing: Ok exactly when the 64-bit decode fits in 32 bits
#[kani::proof]
#[kani::unwind(12)]
fn k_leb_u32_narrowing() {
    let buf: [u8; 11] = kani::any();
    let n: usize = kani::any();
    kani::assume(n <= 11);
    let mut a = EndianSlice::new(&buf[..n], LittleEndian);
    let mut b = a;
    let wide = a.read_uleb128();
    let narrow = b.read_uleb128_u32();
    match wide {
        Ok(v) if v <= u32::MAX as u64 => {
            assert!(narrow == Ok(v as u32));
            assert!(a.len() == b.len());
        }
        _ => { assert!(narrow.is_err()); }
    }
}

/// skip consumes through the first terminator, with no length limit. bounded(12): buffer of at most 12 bytes.
#[kani::proof]
#[kani::unwind(14)]
fn k_leb_skip_spec_b12() {
    let buf: [u8; 12] = kani::any();
    let n: usize = kani::any();
    kani::assume(n <= 12);
    let mut r = EndianSlice::new(&buf[..n], LittleEndian);
    let got = r.skip_leb128();
    let (_, term, k, _) = uleb_ref(&buf, n);
    if term {
        assert!(got.is_ok());
        assert!(r.len() == n - (k + 1));
    } else {
        assert!(got.is_err());
    }
}

/// encode then decode is the identity, consumed == len == uleb128_size, for ALL u64
#[kani::proof]
#[kani::unwind(12)]
fn k_leb_uleb_roundtrip_all() {
    let x: u64 = kani::any();
    let enc = leb128::write::Leb128::unsigned(x);
    let bytes = enc.bytes();
    assert!(bytes.len() == leb128::write::uleb128_size(x));
    assert!(bytes.len() == enc.len());
    let mut r = EndianSlice::new(bytes, LittleEndian);
    assert!(r.read_uleb128() == Ok(x));
    assert!(r.len() == 0);
    let mut s = EndianSlice::new(bytes, LittleEndian);
    assert!(s.skip_leb128().is_ok() && s.len() == 0);
}

/// signed round trip for ALL i64
#[kani::proof]
#[kani::unwind(12)]
fn k_leb_sleb_roundtrip_all() {
    let x: i64 = kani::any();
    let enc = leb128::write::Leb128::signed(x);
    let bytes = enc.bytes();
    assert!(bytes.len() == leb128::write::sleb128_size(x));
    let mut r = EndianSlice::new(bytes, LittleEndian);
    assert!(r.read_sleb128() == Ok(x));
    assert!(r.len() == 0);
}

/// the generic free functions are what the Reader methods delegate to (R-DELEGATE): same results on EndianSlice
#[kani::proof]
#[kani::unwind(12)]
fn k_leb_delegation() {
    let buf: [u8; 11] = kani::any();
    let n: usize = kani::any();
    kani::assume(n <= 11);
    let mut a = EndianSlice::new(&buf[..n], LittleEndian);
    let mut b = a;
    assert!(a.read_uleb128() == leb128::read::unsigned(&mut b));
    assert!(a.len() == b.len());
    let mut a = EndianSlice::new(&buf[..n], LittleEndian);
    let mut b = a;
    assert!(a.read_sleb128() == leb128::read::signed(&mut b));
    assert!(a.len() == b.len());
    let mut a = EndianSlice::new(&buf[..n], LittleEndian);
    let mut b = a;
    assert!(a.read_uleb128_u16() == leb128::read::u16(&mut b));
    assert!(a.len() == b.len());
}
