//! K-RELOCPARSE (C18): "Every address and cross-section offset, and nothing else, passes through the relocatable
//! primitives" - checked on the PARSERS of the real crate.
//!
//! The Verus contracts state what a parser returns as a function of the bytes; `read_offset` and `read_word`/`read_u64`
//! return the same value for the same bytes, so a parser that reads a section offset with a plain integer primitive
//! satisfies them and silently skips relocation.  Here every parse runs twice on the same bytes: once on the bare
//! `EndianSlice` and once on `RelocateReader<EndianSlice, Add2>` where
//! `relocate_address(_, v) = v + ka` and `relocate_offset(_, v) = v + ko` (`ka`, `ko` arbitrary, so the "address" and
//! the "offset" primitive are told apart as well).  Expected relation, from the DWARF class of each field (reference
//! functions `attr_class`, `header_relation`, `list_entry_relation`, ... below, written from DWARF 2-5 section 7.5 /
//! 6.x and the GNU extensions, not from gimli):
//!   * class address                        -> relocated value = bare value + ka
//!   * class section offset (cross-section)  -> relocated value = bare value + ko
//!   * everything else                       -> identical result
//! and in every case the same error (if any) and the same amount of input consumed.
//! (That the offset handed to `relocate_*` is the section offset of the field is K-RELOC's business; the relocation
//! used here ignores it.)
//!
//! Groups: DIE attributes, every form of DWARF 2-5 + GNU (`k_relocparse_attr_*`, `_indirect_*`, `_eof_*`); unit headers
//! (`_unit_header_*`); line programs (`_line_*`); range / location lists (`_rnglists_*`, `_loclists_*`,
//! `_ranges_bare_pair`); `.debug_aranges`; the `.debug_frame` CIE pointer; expression operations (`_op_*`);
//! `.debug_addr` / `.debug_str_offsets` entries.
//!
//! Where the standard and gimli disagree, or the standard is silent, BOTH behaviours are accepted (class `Either`) and
//! the disagreement is recorded as an observation, not asserted:
//!   O1 `type_offset` of type units (unit-relative) is read with `read_offset`            (relocated, should be plain)
//!   O2 DW_FORM_data4/data8 of DWARF >= 4 units with a DWARF 2/3 pointer name, and of DW_AT_start_scope / DW_AT_macros
//!      in any version, are read with `read_offset`                                       (relocated, constants by the standard)
//!   O3 DW_FORM_data4/data8 with DW_AT_GNU_macros, DW_AT_GNU_locviews (GCC emits both as data4 + relocation for
//!      `-gdwarf-2/3`), DW_AT_GNU_ranges_base, DW_AT_GNU_addr_base are read with `read_u32/u64`  (NOT relocated)
//!   O4 the length of a `.debug_aranges` tuple is read with `read_address`                (relocated, should be plain)
//!   O5 the `.debug_frame` CIE pointer is read with `read_u32/read_u64`                   (NOT relocated; the writer
//!      records a relocation for it)
//!   O6 DW_OP_implicit_pointer in version 2 units reads its .debug_info offset with `read_address` (relocated as an
//!      address; DW_FORM_ref_addr in the same situation uses `read_sized_offset`)
//!   O7 DW_FORM_ref_sup4/ref_sup8 are read with `read_u32/u64` while DW_FORM_GNU_ref_alt / strp_sup / GNU_strp_alt (also
//!      offsets into the supplementary object) are read with `read_offset`; pinned here as implemented
//! A relocating read of a field that has no relocation is harmless with an offset-keyed `Relocate` (O1, O2, O4); a
//! plain read of a field that has one (O3, O5) loses the relocation.
//! O3 and O5 additionally have STRICT harnesses at the end of the file (`k_relocparse_f_gnu_secoff_data4`,
//! `k_relocparse_f_fde_cie_pointer`) that FAIL on the pinned tree and are registered as known findings; native
//! reproducers native/src/bin/f_reloc_2.rs (O3) and f_reloc_1.rs (O5).
//!
//! CBMC notes: a value that comes out of a `Result`-returning parser is merged with the error path and is no longer
//! concrete for CBMC; parsers that continue on such a value (line program header -> instructions, CIE -> FDE) explore
//! every branch of what follows.  Hence the attribute harnesses build `EntriesRaw::new` directly (public) with an
//! arbitrary `Encoding` instead of going through a parsed header, the opcode / form / entry kind is a constant per call
//! (`forms!`), LEB128 operands are limited to two groups by zeroing the tail of the section, and the FDE body is not
//! covered.  `Abbreviations::default()` is wrapped in `ManuallyDrop` (BTreeMap drop glue).
#![allow(non_upper_case_globals)]
use core::mem::ManuallyDrop;
use gimli::constants::*;
use gimli::{
    Abbreviations, AttributeSpecification, AttributeValue, DebugInfo, DebugTypes, Encoding, EndianSlice, EntriesRaw, Error,
    Format, Reader, Relocate, RelocateReader, Result, RunTimeEndian, UnitOffset, UnitType,
};

type S<'a> = EndianSlice<'a, RunTimeEndian>;
type RR<'a> = RelocateReader<S<'a>, Add2>;

/// addresses + ka, offsets + ko
#[derive(Debug, Clone, Copy)]
struct Add2 {
    ka: u64,
    ko: u64,
}
impl Relocate<usize> for Add2 {
    fn relocate_address(&self, _offset: usize, value: u64) -> Result<u64> {
        Ok(value.wrapping_add(self.ka))
    }
    fn relocate_offset(&self, _offset: usize, value: usize) -> Result<usize> {
        Ok(value.wrapping_add(self.ko as usize))
    }
}
fn any_rel() -> Add2 {
    Add2 { ka: kani::any(), ko: kani::any() }
}

fn any_endian() -> RunTimeEndian {
    if kani::any() {
        RunTimeEndian::Big
    } else {
        RunTimeEndian::Little
    }
}
fn any_format() -> Format {
    if kani::any() {
        Format::Dwarf32
    } else {
        Format::Dwarf64
    }
}

/// the memory window a reader stands on (both reader kinds are views of the same section bytes)
trait View: Reader<Offset = usize> {
    fn win(&self) -> (*const u8, usize);
}
impl<'a> View for S<'a> {
    fn win(&self) -> (*const u8, usize) {
        (self.slice().as_ptr(), self.len())
    }
}
impl<'a> View for RR<'a> {
    fn win(&self) -> (*const u8, usize) {
        (self.inner().slice().as_ptr(), self.inner().len())
    }
}

/// an attribute value with the reader type erased: variant, numeric payload, window of a reader payload
#[derive(Clone, Copy, PartialEq, Eq, Debug)]
struct Norm {
    tag: u8,
    num: u128,
    ptr: *const u8,
    len: usize,
}
const T_ADDR: u8 = 1;
fn norm<R: View>(v: AttributeValue<R>) -> Norm {
    let n = |tag: u8, num: u128| Norm { tag, num, ptr: core::ptr::null(), len: 0 };
    let w = |tag: u8, r: &R| {
        let (ptr, len) = r.win();
        Norm { tag, num: 0, ptr, len }
    };
    match v {
        AttributeValue::Addr(a) => n(T_ADDR, a as u128),
        AttributeValue::Block(r) => w(2, &r),
        AttributeValue::Data1(x) => n(3, x as u128),
        AttributeValue::Data2(x) => n(4, x as u128),
        AttributeValue::Data4(x) => n(5, x as u128),
        AttributeValue::Data8(x) => n(6, x as u128),
        AttributeValue::Data16(x) => n(7, x),
        AttributeValue::Sdata(x) => n(8, x as u64 as u128),
        AttributeValue::Udata(x) => n(9, x as u128),
        AttributeValue::Exprloc(e) => w(10, &e.0),
        AttributeValue::Flag(x) => n(11, x as u128),
        AttributeValue::SecOffset(x) => n(12, x as u128),
        AttributeValue::DebugAddrBase(x) => n(13, x.0 as u128),
        AttributeValue::DebugAddrIndex(x) => n(14, x.0 as u128),
        AttributeValue::UnitRef(x) => n(15, x.0 as u128),
        AttributeValue::DebugInfoRef(x) => n(16, x.0 as u128),
        AttributeValue::DebugInfoRefSup(x) => n(17, x.0 as u128),
        AttributeValue::DebugLineRef(x) => n(18, x.0 as u128),
        AttributeValue::LocationListsRef(x) => n(19, x.0 as u128),
        AttributeValue::DebugLocListsBase(x) => n(20, x.0 as u128),
        AttributeValue::DebugLocListsIndex(x) => n(21, x.0 as u128),
        AttributeValue::DebugMacinfoRef(x) => n(22, x.0 as u128),
        AttributeValue::DebugMacroRef(x) => n(23, x.0 as u128),
        AttributeValue::RangeListsRef(x) => n(24, x.0 as u128),
        AttributeValue::DebugRngListsBase(x) => n(25, x.0 as u128),
        AttributeValue::DebugRngListsIndex(x) => n(26, x.0 as u128),
        AttributeValue::DebugTypesRef(x) => n(27, x.0 as u128),
        AttributeValue::DebugStrRef(x) => n(28, x.0 as u128),
        AttributeValue::DebugStrRefSup(x) => n(29, x.0 as u128),
        AttributeValue::DebugStrOffsetsBase(x) => n(30, x.0 as u128),
        AttributeValue::DebugStrOffsetsIndex(x) => n(31, x.0 as u128),
        AttributeValue::DebugLineStrRef(x) => n(32, x.0 as u128),
        AttributeValue::String(r) => w(33, &r),
        AttributeValue::Encoding(x) => n(34, x.0 as u128),
        AttributeValue::DecimalSign(x) => n(35, x.0 as u128),
        AttributeValue::Endianity(x) => n(36, x.0 as u128),
        AttributeValue::Accessibility(x) => n(37, x.0 as u128),
        AttributeValue::Visibility(x) => n(38, x.0 as u128),
        AttributeValue::Virtuality(x) => n(39, x.0 as u128),
        AttributeValue::Language(x) => n(40, x.0 as u128),
        AttributeValue::AddressClass(x) => n(41, x.0 as u128),
        AttributeValue::IdentifierCase(x) => n(42, x.0 as u128),
        AttributeValue::CallingConvention(x) => n(43, x.0 as u128),
        AttributeValue::Inline(x) => n(44, x.0 as u128),
        AttributeValue::Ordering(x) => n(45, x.0 as u128),
        AttributeValue::FileIndex(x) => n(46, x as u128),
        AttributeValue::DwoId(x) => n(47, x.0 as u128),
    }
}

// ---- reference: the class of an attribute value, from the DWARF standards ------------------------------------------
#[derive(Clone, Copy, PartialEq, Eq, Debug)]
enum Class {
    /// not relocatable: constants, flags, unit-relative references, indices, signatures, inline blocks / strings
    Plain,
    /// an address of the program (DWARF 2–5: DW_FORM_addr)
    Address,
    /// an offset into another section (or into .debug_info as a whole) of this or the supplementary object
    SectionOffset,
    /// the standard of the unit's version does not give this name/form pair an offset class, but producers use it as
    /// one (or the reverse): either behaviour accepted, gimli's choice is reported as an observation
    Either,
}

/// DWARF 3 figure 20 / DWARF 2 figure 18: attributes with class lineptr, loclistptr, macptr or rangelistptr — in
/// DWARF 2 and 3 these pointers are encoded as DW_FORM_data4 (32-bit DWARF) / DW_FORM_data8 (64-bit DWARF); DWARF 4
/// introduced DW_FORM_sec_offset and made data4/data8 constants only
fn legacy_ptr_name(name: DwAt) -> bool {
    name == DW_AT_location
        || name == DW_AT_stmt_list
        || name == DW_AT_string_length
        || name == DW_AT_return_addr
        || name == DW_AT_data_member_location
        || name == DW_AT_frame_base
        || name == DW_AT_macro_info
        || name == DW_AT_segment
        || name == DW_AT_static_link
        || name == DW_AT_use_location
        || name == DW_AT_vtable_elem_location
        || name == DW_AT_ranges
}
/// names that only got a pointer class in DWARF 4/5 or are vendor extensions emitted as data4/data8 by producers
/// targeting DWARF 2/3 (GCC `-gdwarf-2 -g3`: DW_AT_GNU_macros; `-gvariable-location-views`: DW_AT_GNU_locviews; …)
fn extension_ptr_name(name: DwAt) -> bool {
    name == DW_AT_start_scope
        || name == DW_AT_macros
        || name == DW_AT_GNU_macros
        || name == DW_AT_GNU_locviews
        || name == DW_AT_GNU_ranges_base
        || name == DW_AT_GNU_addr_base
        || name == DW_AT_str_offsets_base
        || name == DW_AT_addr_base
        || name == DW_AT_rnglists_base
        || name == DW_AT_loclists_base
}
fn legacy_class(name: DwAt, version: u16, word_matches: bool) -> Class {
    if !word_matches {
        // data4 in 64-bit DWARF / data8 in 32-bit DWARF cannot hold a section offset
        return Class::Plain;
    }
    if legacy_ptr_name(name) {
        if version <= 3 {
            Class::SectionOffset
        } else {
            Class::Either
        }
    } else if extension_ptr_name(name) {
        Class::Either
    } else {
        Class::Plain
    }
}
fn attr_class(form: DwForm, name: DwAt, enc: Encoding) -> Class {
    match form {
        DW_FORM_addr => Class::Address,
        // DWARF 4/5: lineptr, loclist, macptr, rnglist, addrptr, stroffsetsptr …
        DW_FORM_sec_offset => Class::SectionOffset,
        // offsets into .debug_str / .debug_line_str
        DW_FORM_strp | DW_FORM_line_strp => Class::SectionOffset,
        // offset from the beginning of .debug_info (address-sized in DWARF 2, offset-sized later)
        DW_FORM_ref_addr => Class::SectionOffset,
        // offsets into sections of the supplementary object file
        DW_FORM_strp_sup | DW_FORM_GNU_strp_alt | DW_FORM_GNU_ref_alt => Class::SectionOffset,
        DW_FORM_data4 => legacy_class(name, enc.version, enc.format == Format::Dwarf32),
        DW_FORM_data8 => legacy_class(name, enc.version, enc.format == Format::Dwarf64),
        _ => Class::Plain,
    }
}

// ---- one attribute, both readers ------------------------------------------------------------------------------------
/// section size: one byte before the window, then up to 17 bytes (the widest fixed form, data16, plus one)
const L: usize = 18;
const START: usize = 1;

struct Env {
    data: [u8; L],
    endian: RunTimeEndian,
    n: usize,
    enc: Encoding,
    rel: Add2,
}
/// `full`: the window has exactly `max` bytes (no read can hit the end of input); otherwise any length up to `max`
fn any_env(max: usize, full: bool) -> Env {
    any_env_prefix(max, full, max)
}
/// only the first `sym` bytes of the window are arbitrary, the rest is zero (bounds the LEB128 loops: a LEB128 number
/// starting in the arbitrary prefix ends at the latest on the first zero byte)
fn any_env_prefix(max: usize, full: bool, sym: usize) -> Env {
    let mut env = any_env_all(max, full);
    let mut i = START + sym;
    while i < L {
        env.data[i] = 0;
        i += 1;
    }
    env
}
fn any_env_all(max: usize, full: bool) -> Env {
    let n: usize = if full { max } else { kani::any() };
    kani::assume(n <= max && max <= L - START);
    let version: u16 = kani::any();
    kani::assume(2 <= version && version <= 5);
    Env {
        data: kani::any(),
        endian: any_endian(),
        n,
        enc: Encoding { format: any_format(), version, address_size: kani::any() },
        rel: any_rel(),
    }
}

type Out = (Result<(DwAt, DwForm, Norm)>, usize, bool);

fn read_one<R: View>(input: R, enc: Encoding, abbrevs: &Abbreviations, spec: AttributeSpecification) -> Out {
    let mut raw = EntriesRaw::new(input, enc, abbrevs, UnitOffset(0));
    let r = raw.read_attribute(spec).map(|a| (a.name(), a.form(), norm(a.raw_value())));
    (r, raw.next_offset().0, raw.is_empty())
}

/// `form` is a constant at every call site, so only its arm of `parse_attribute` is compiled into the formula
fn check_form(env: &Env, form: DwForm, class_form: DwForm) {
    let base = EndianSlice::new(&env.data[..], env.endian);
    let bare = base.range(START..START + env.n);
    let mut rr = RelocateReader::new(base, env.rel);
    rr.skip(START).unwrap();
    rr.truncate(env.n).unwrap();
    let name = DwAt(kani::any());
    // (`AttributeSpecification::new` requires an implicit value for DW_FORM_implicit_const and none otherwise)
    let implicit: Option<i64> = if form == DW_FORM_implicit_const { Some(kani::any()) } else { None };
    // empty abbreviation table (never consulted by `read_attribute`); not dropped: BTreeMap's drop glue is all CBMC
    // would be busy with
    let abbrevs = ManuallyDrop::new(Abbreviations::default());
    let spec = AttributeSpecification::new(name, form, implicit);
    let (b, b_next, b_empty) = read_one(bare, env.enc, &abbrevs, spec);
    let (r, r_next, r_empty) = read_one(rr, env.enc, &abbrevs, spec);
    // same consumption
    assert!(b_next == r_next);
    assert!(b_empty == r_empty);
    match (b, r) {
        (Err(eb), Err(er)) => assert!(eb == er),
        (Ok((bn, bf, bv)), Ok((rn, rf, rv))) => {
            assert!(bn == rn && bf == rf);
            let plain = bv == rv;
            let as_address = bv.tag == T_ADDR
                && rv == Norm { num: (bv.num as u64).wrapping_add(env.rel.ka) as u128, ..bv };
            let as_offset = bv.tag != T_ADDR
                && rv == Norm { num: (bv.num as usize).wrapping_add(env.rel.ko as usize) as u128, ..bv };
            match attr_class(class_form, name, env.enc) {
                Class::Plain => assert!(plain),
                Class::Address => assert!(as_address),
                Class::SectionOffset => assert!(as_offset),
                Class::Either => assert!(plain || as_offset),
            }
        }
        _ => assert!(false),
    }
}

macro_rules! forms {
    ($env:expr; $last:ident) => { check_form($env, $last, $last) };
    ($env:expr; $f:ident, $($rest:ident),+) => { if kani::any() { check_form($env, $f, $f) } else { forms!($env; $($rest),+) } };
}
macro_rules! attr_harness {
    ($name:ident, $max:expr, $full:expr; $($f:ident),+) => { attr_harness!($name, $max, $full, $max; $($f),+); };
    ($name:ident, $max:expr, $full:expr, $sym:expr; $($f:ident),+) => {
        #[kani::proof]
        #[kani::unwind(24)]
        fn $name() {
            let env = any_env_prefix($max, $full, $sym);
            forms!(&env; $($f),+);
        }
    };
}

// address class
attr_harness!(k_relocparse_attr_addr, 9, true; DW_FORM_addr);
// section-offset class, DWARF 2-5 and GNU
attr_harness!(k_relocparse_attr_secoff_v4, 9, true; DW_FORM_sec_offset, DW_FORM_ref_addr);
attr_harness!(k_relocparse_attr_secoff_str, 9, true; DW_FORM_strp, DW_FORM_line_strp);
attr_harness!(k_relocparse_attr_secoff_sup, 9, true; DW_FORM_strp_sup, DW_FORM_GNU_strp_alt, DW_FORM_GNU_ref_alt);
// DWARF 2/3 pointers in data4 / data8, for every attribute name
attr_harness!(k_relocparse_attr_legacy_data4, 5, true; DW_FORM_data4);
attr_harness!(k_relocparse_attr_legacy_data8, 9, true; DW_FORM_data8);
// not relocatable: fixed-size constants, flags, references, indices
attr_harness!(k_relocparse_attr_plain_const, 3, true; DW_FORM_data1, DW_FORM_data2, DW_FORM_flag, DW_FORM_flag_present, DW_FORM_implicit_const);
attr_harness!(k_relocparse_attr_plain_ref, 5, true; DW_FORM_ref1, DW_FORM_ref2, DW_FORM_ref4, DW_FORM_ref_sup4);
attr_harness!(k_relocparse_attr_plain_wide, 17, true; DW_FORM_data16, DW_FORM_ref8, DW_FORM_ref_sig8, DW_FORM_ref_sup8);
attr_harness!(k_relocparse_attr_plain_strx, 5, true; DW_FORM_strx1, DW_FORM_strx2, DW_FORM_strx3, DW_FORM_strx4);
attr_harness!(k_relocparse_attr_plain_addrx, 5, true; DW_FORM_addrx1, DW_FORM_addrx2, DW_FORM_addrx3, DW_FORM_addrx4);
// not relocatable, variable length.  LEB128 values: 1 or 2 groups (two arbitrary bytes, then zeros)
attr_harness!(k_relocparse_attr_plain_leb_const, 4, true, 2; DW_FORM_udata, DW_FORM_sdata, DW_FORM_ref_udata);
attr_harness!(k_relocparse_attr_plain_leb_strx, 4, true, 2; DW_FORM_strx, DW_FORM_GNU_str_index);
attr_harness!(k_relocparse_attr_plain_leb_addrx, 4, true, 2; DW_FORM_addrx, DW_FORM_GNU_addr_index);
attr_harness!(k_relocparse_attr_plain_leb_listx, 4, true, 2; DW_FORM_loclistx, DW_FORM_rnglistx);
// blocks and inline strings: arbitrary length field / terminator position, content up to the window
attr_harness!(k_relocparse_attr_plain_block_12, 9, true; DW_FORM_block1, DW_FORM_block2);
attr_harness!(k_relocparse_attr_plain_block_4, 9, true; DW_FORM_block4);
attr_harness!(k_relocparse_attr_plain_block_leb, 9, true, 2; DW_FORM_block, DW_FORM_exprloc);
attr_harness!(k_relocparse_attr_plain_string, 9, true; DW_FORM_string);

// ---- unit headers (.debug_info, .debug_types) ------------------------------------------------------------------------
/// the widest header: 64-bit DWARF 5 type unit = 12 + 2 + 1 + 1 + 8 + 8 + 8 bytes; one more for the entries
const HL: usize = 41;

#[derive(Clone, Copy, PartialEq, Eq, Debug)]
struct HeaderNorm {
    encoding: Encoding,
    unit_length: usize,
    /// the unit type with `type_offset` zeroed, and `type_offset`
    unit_type: UnitType<usize>,
    type_offset: Option<usize>,
    abbrev: usize,
    header_size: usize,
    entries: (*const u8, usize),
}
fn header_norm<R: View>(h: &gimli::UnitHeader<R>) -> HeaderNorm {
    let (unit_type, type_offset) = match h.type_() {
        UnitType::Type { type_signature, type_offset } => {
            (UnitType::Type { type_signature, type_offset: UnitOffset(0) }, Some(type_offset.0))
        }
        UnitType::SplitType { type_signature, type_offset } => {
            (UnitType::SplitType { type_signature, type_offset: UnitOffset(0) }, Some(type_offset.0))
        }
        t => (t, None),
    };
    HeaderNorm {
        encoding: h.encoding(),
        unit_length: h.unit_length(),
        unit_type,
        type_offset,
        abbrev: h.debug_abbrev_offset().0,
        header_size: h.header_size(),
        entries: match h.range_from(h.root_offset()..) {
            Ok(r) => r.win(),
            Err(_) => (core::ptr::null(), usize::MAX),
        },
    }
}
/// relation between the two parses of one unit header.  DWARF 2-5 section 7.5.1: `debug_abbrev_offset` is an offset
/// into .debug_abbrev (relocatable); `unit_length`, `version`, `unit_type`, `address_size`, `type_signature`, `dwo_id`
/// are plain; `type_offset` is an offset "relative to the beginning of the type unit header", i.e. NOT relocatable.
/// Observation (not asserted, either behaviour accepted): gimli reads `type_offset` with `read_offset`.
fn header_relation(b: Result<Option<HeaderNorm>>, r: Result<Option<HeaderNorm>>, rel: Add2) {
    match (b, r) {
        (Err(eb), Err(er)) => assert!(eb == er),
        (Ok(None), Ok(None)) => {}
        (Ok(Some(b)), Ok(Some(r))) => {
            assert!(r.abbrev == b.abbrev.wrapping_add(rel.ko as usize));
            let t_plain = r.type_offset == b.type_offset;
            let t_reloc = r.type_offset == b.type_offset.map(|t| t.wrapping_add(rel.ko as usize));
            assert!(t_plain || t_reloc);
            assert!(r == HeaderNorm { abbrev: r.abbrev, type_offset: r.type_offset, ..b });
        }
        _ => assert!(false),
    }
}

#[kani::proof]
#[kani::unwind(44)]
fn k_relocparse_unit_header_info() {
    let data: [u8; HL] = kani::any();
    let base = EndianSlice::new(&data[..], any_endian());
    let rel = any_rel();
    let b = DebugInfo::from(base).units().next().map(|h| h.map(|h| header_norm(&h)));
    let r = DebugInfo::from(RelocateReader::new(base, rel)).units().next().map(|h| h.map(|h| header_norm(&h)));
    header_relation(b, r, rel);
}

#[kani::proof]
#[kani::unwind(44)]
fn k_relocparse_unit_header_types() {
    let data: [u8; HL] = kani::any();
    let base = EndianSlice::new(&data[..], any_endian());
    let rel = any_rel();
    let b = DebugTypes::from(base).units().next().map(|h| h.map(|h| header_norm(&h)));
    let r = DebugTypes::from(RelocateReader::new(base, rel)).units().next().map(|h| h.map(|h| header_norm(&h)));
    header_relation(b, r, rel);
}

/// quick variant: little-endian, the initial length and the version are fixed (so the parse cannot run out of input),
/// every other header byte arbitrary: 32-bit DWARF 4 compilation unit, 64-bit DWARF 5 unit of any type
fn header_fixed(prefix: &[u8]) {
    let mut data: [u8; HL] = kani::any();
    let mut i = 0;
    while i < prefix.len() {
        data[i] = prefix[i];
        i += 1;
    }
    let base = EndianSlice::new(&data[..], RunTimeEndian::Little);
    let rel = any_rel();
    let b = DebugInfo::from(base).units().next().map(|h| h.map(|h| header_norm(&h)));
    let r = DebugInfo::from(RelocateReader::new(base, rel)).units().next().map(|h| h.map(|h| header_norm(&h)));
    header_relation(b, r, rel);
}
#[kani::proof]
#[kani::unwind(44)]
fn k_relocparse_unit_header_quick() {
    if kani::any() {
        header_fixed(&[HL as u8 - 4, 0, 0, 0, 4, 0]);
    } else {
        header_fixed(&[0xff, 0xff, 0xff, 0xff, HL as u8 - 12, 0, 0, 0, 0, 0, 0, 0, 5, 0]);
    }
}

// ---- DW_FORM_indirect: the form comes from the data; same classes as for the direct form ------------------------------
fn check_indirect(env: &mut Env, actual: DwForm) {
    // ULEB128 of the form code at the start of the window
    if actual.0 < 0x80 {
        env.data[START] = actual.0 as u8;
    } else {
        env.data[START] = (actual.0 & 0x7f) as u8 | 0x80;
        env.data[START + 1] = (actual.0 >> 7) as u8;
    }
    check_form(env, DW_FORM_indirect, actual);
}
macro_rules! indirect_forms {
    ($env:expr; $last:ident) => { check_indirect($env, $last) };
    ($env:expr; $f:ident, $($rest:ident),+) => { if kani::any() { check_indirect($env, $f) } else { indirect_forms!($env; $($rest),+) } };
}
macro_rules! indirect_harness {
    ($name:ident; $($f:ident),+) => {
        #[kani::proof]
        #[kani::unwind(24)]
        fn $name() {
            let mut env = any_env(11, true);
            indirect_forms!(&mut env; $($f),+);
        }
    };
}
indirect_harness!(k_relocparse_indirect_addr_secoff; DW_FORM_addr, DW_FORM_sec_offset, DW_FORM_strp);
indirect_harness!(k_relocparse_indirect_refaddr_alt; DW_FORM_ref_addr, DW_FORM_GNU_ref_alt);
indirect_harness!(k_relocparse_indirect_legacy; DW_FORM_data4, DW_FORM_data8);
indirect_harness!(k_relocparse_indirect_plain; DW_FORM_data2, DW_FORM_ref4, DW_FORM_ref_sig8);

// ---- the relocatable forms again with an arbitrary window length (end of input inside the field) --------------------
attr_harness!(k_relocparse_eof_addr, 9, false; DW_FORM_addr);
attr_harness!(k_relocparse_eof_secoff, 9, false; DW_FORM_sec_offset, DW_FORM_ref_addr);
attr_harness!(k_relocparse_eof_legacy, 9, false; DW_FORM_data4, DW_FORM_data8);

// ---- line number programs ---------------------------------------------------------------------------------------------
use gimli::{DebugLine, DebugLineOffset, LineInstruction};

/// a DWARF 4, 32-bit line program header without directories and files, 12 standard opcodes
const LINE_HDR: [u8; 30] = [
    38, 0, 0, 0, // unit_length
    4, 0, // version
    20, 0, 0, 0, // header_length
    1, 1, 1, 0xfb, 14, 13, // min_inst_len, max_ops, default_is_stmt, line_base, line_range, opcode_base
    0, 1, 1, 1, 1, 0, 0, 0, 1, 0, 0, 1, // standard_opcode_lengths
    0, 0, // include_directories, file_names
];
const LINE_PROG: usize = 12;
const LINE_LEN: usize = 30 + LINE_PROG;

/// header, then `prefix`, then `sym` arbitrary bytes, then zeros
fn line_section(prefix: &[u8], sym: usize) -> [u8; LINE_LEN] {
    let mut data: [u8; LINE_LEN] = kani::any();
    let mut i = 0;
    while i < LINE_LEN {
        if i < 30 {
            data[i] = LINE_HDR[i];
        } else if i < 30 + prefix.len() {
            data[i] = prefix[i - 30];
        } else if i >= 30 + prefix.len() + sym {
            data[i] = 0;
        }
        i += 1;
    }
    data
}
fn line_norm<R: View>(i: LineInstruction<R>) -> (u8, u64, u64) {
    match i {
        LineInstruction::Special(x) => (1, x as u64, 0),
        LineInstruction::Copy => (2, 0, 0),
        LineInstruction::AdvancePc(x) => (3, x, 0),
        LineInstruction::AdvanceLine(x) => (4, x as u64, 0),
        LineInstruction::SetFile(x) => (5, x, 0),
        LineInstruction::SetColumn(x) => (6, x, 0),
        LineInstruction::NegateStatement => (7, 0, 0),
        LineInstruction::SetBasicBlock => (8, 0, 0),
        LineInstruction::ConstAddPc => (9, 0, 0),
        LineInstruction::FixedAddPc(x) => (10, x as u64, 0),
        LineInstruction::SetPrologueEnd => (11, 0, 0),
        LineInstruction::SetEpilogueBegin => (12, 0, 0),
        LineInstruction::SetIsa(x) => (13, x, 0),
        LineInstruction::UnknownStandard0(op) => (14, op.0 as u64, 0),
        LineInstruction::UnknownStandard1(op, x) => (15, op.0 as u64, x),
        LineInstruction::UnknownStandardN(op, r) => (16, op.0 as u64, r.win().1 as u64),
        LineInstruction::EndSequence => (17, 0, 0),
        LineInstruction::SetAddress(a) => (T_SET_ADDRESS, a, 0),
        LineInstruction::DefineFile(_) => (19, 0, 0),
        LineInstruction::SetDiscriminator(x) => (20, x, 0),
        LineInstruction::UnknownExtended(op, r) => (21, op.0 as u64, r.win().1 as u64),
    }
}
const T_SET_ADDRESS: u8 = 18;

fn first_instruction<R: View>(section: R, address_size: u8) -> Result<Option<(u8, u64, u64)>> {
    let program = DebugLine::from(section).program(DebugLineOffset(0), address_size, None, None)?;
    let header = program.header();
    let mut instructions = header.instructions();
    let i = instructions.next_instruction(header)?;
    let r = i.map(line_norm);
    core::mem::forget(program);
    Ok(r)
}
/// DWARF 2-5 section 6.2.5: the operand of DW_LNE_set_address is "a relocatable address"; no other operand of any
/// line number instruction is relocatable
fn line_instruction_relation(data: &[u8; LINE_LEN], address_size: u8) {
    let base = EndianSlice::new(&data[..], RunTimeEndian::Little);
    let rel = any_rel();
    let b = first_instruction(base, address_size);
    let r = first_instruction(RelocateReader::new(base, rel), address_size);
    match (b, r) {
        (Err(eb), Err(er)) => assert!(eb == er),
        (Ok(None), Ok(None)) => {}
        (Ok(Some(b)), Ok(Some(r))) => {
            if b.0 == T_SET_ADDRESS {
                assert!(r == (T_SET_ADDRESS, b.1.wrapping_add(rel.ka), 0));
            } else {
                assert!(r == b);
            }
        }
        _ => assert!(false),
    }
}
/// DW_LNE_set_address with an arbitrary 4- or 8-byte address
#[kani::proof]
#[kani::unwind(44)]
fn k_relocparse_line_set_address() {
    if kani::any() {
        line_instruction_relation(&line_section(&[0, 9, 2], 8), 8);
    } else {
        line_instruction_relation(&line_section(&[0, 5, 2], 4), 4);
    }
}
/// instructions without relocatable operands: a fixed-size operand; an unknown extended opcode with the layout of
/// set_address.  (LEB128 operands are not covered here: ~9 CPU-minutes through the line header, and a LEB128 read
/// cannot be a relocating read, K-RELOC `k_reloc_addk_uleb16`.)
#[kani::proof]
#[kani::unwind(44)]
fn k_relocparse_line_plain_fixed() {
    if kani::any() {
        // DW_LNS_fixed_advance_pc, u16
        line_instruction_relation(&line_section(&[9], 2), 8);
    } else {
        // unknown extended opcode 0x80 with 8 bytes of payload
        line_instruction_relation(&line_section(&[0, 9, 0x80], 8), 8);
    }
}
// (`program.rows().next_row()` is not covered: the state machine loops over instructions whose opcodes are no longer
// concrete for CBMC after the header parse, every LEB128-reading arm is unrolled in every iteration: > 15 CPU-minutes.
// `LineRows` takes the address from `LineInstruction::SetAddress` checked above; the Verus batch `line` covers the rest.)

// ---- range lists and location lists ---------------------------------------------------------------------------------
use gimli::{
    DebugLoc, DebugLocLists, DebugRanges, DebugRngLists, LocationLists, LocationListsOffset, RangeLists, RangeListsOffset,
    RawLocListEntry, RawRngListEntry,
};

/// (variant, first operand, second operand, window of the expression); address operands are flagged in `addr_mask`
#[derive(Clone, Copy, PartialEq, Eq, Debug)]
struct ListNorm {
    tag: u8,
    a: u64,
    b: u64,
    data: (*const u8, usize),
}
const NO_DATA: (*const u8, usize) = (core::ptr::null(), 0);
fn rng_norm(e: RawRngListEntry<usize>) -> ListNorm {
    let n = |tag, a, b| ListNorm { tag, a, b, data: NO_DATA };
    match e {
        RawRngListEntry::AddressOrOffsetPair { begin, end } => n(1, begin, end),
        RawRngListEntry::BaseAddress { addr } => n(2, addr, 0),
        RawRngListEntry::BaseAddressx { addr } => n(3, addr.0 as u64, 0),
        RawRngListEntry::StartxEndx { begin, end } => n(4, begin.0 as u64, end.0 as u64),
        RawRngListEntry::StartxLength { begin, length } => n(5, begin.0 as u64, length),
        RawRngListEntry::OffsetPair { begin, end } => n(6, begin, end),
        RawRngListEntry::StartEnd { begin, end } => n(7, begin, end),
        RawRngListEntry::StartLength { begin, length } => n(8, begin, length),
    }
}
fn loc_norm<R: View>(e: RawLocListEntry<R>) -> ListNorm {
    let n = |tag, a, b, d: Option<&gimli::Expression<R>>| ListNorm {
        tag,
        a,
        b,
        data: match d {
            Some(d) => d.0.win(),
            None => NO_DATA,
        },
    };
    match e {
        RawLocListEntry::AddressOrOffsetPair { begin, end, data } => n(1, begin, end, Some(&data)),
        RawLocListEntry::BaseAddress { addr } => n(2, addr, 0, None),
        RawLocListEntry::BaseAddressx { addr } => n(3, addr.0 as u64, 0, None),
        RawLocListEntry::StartxEndx { begin, end, data } => n(4, begin.0 as u64, end.0 as u64, Some(&data)),
        RawLocListEntry::StartxLength { begin, length, data } => n(5, begin.0 as u64, length, Some(&data)),
        RawLocListEntry::OffsetPair { begin, end, data } => n(6, begin, end, Some(&data)),
        RawLocListEntry::StartEnd { begin, end, data } => n(7, begin, end, Some(&data)),
        RawLocListEntry::StartLength { begin, length, data } => n(8, begin, length, Some(&data)),
        RawLocListEntry::DefaultLocation { data } => n(9, 0, 0, Some(&data)),
    }
}
/// DWARF 5 section 7.25 / 7.29 (and 2.17.3, 2.6.2): DW_RLE/DW_LLE_base_address, start_end (both operands) and
/// start_length (first operand) carry addresses; lengths, offset pairs, indices and expressions are plain
fn list_entry_relation(b: Result<Option<ListNorm>>, r: Result<Option<ListNorm>>, rel: Add2) {
    match (b, r) {
        (Err(eb), Err(er)) => assert!(eb == er),
        (Ok(None), Ok(None)) => {}
        (Ok(Some(b)), Ok(Some(r))) => {
            let (a_addr, b_addr) = match b.tag {
                2 | 8 => (true, false),
                7 => (true, true),
                _ => (false, false),
            };
            let expect = ListNorm {
                a: if a_addr { b.a.wrapping_add(rel.ka) } else { b.a },
                b: if b_addr { b.b.wrapping_add(rel.ka) } else { b.b },
                ..b
            };
            assert!(r == expect);
        }
        _ => assert!(false),
    }
}
const LIST_LEN: usize = 19;
/// `.debug_rnglists` / `.debug_loclists` entry with the given (concrete) kind; `sym` arbitrary bytes follow, then zeros
fn list_section(kind: u8, sym: usize) -> [u8; LIST_LEN] {
    let mut data: [u8; LIST_LEN] = kani::any();
    data[START] = kind;
    let mut i = START + 1 + sym;
    while i < LIST_LEN {
        data[i] = 0;
        i += 1;
    }
    data
}
fn v5(address_size: u8) -> Encoding {
    Encoding { format: any_format(), version: 5, address_size }
}
fn rle_case(kind: gimli::DwRle, address_size: u8, sym: usize) {
    let data = list_section(kind.0, sym);
    let base = EndianSlice::new(&data[..], any_endian());
    let rel = any_rel();
    let enc = v5(address_size);
    let b = RangeLists::new(DebugRanges::from(base), DebugRngLists::from(base))
        .raw_ranges(RangeListsOffset(START), enc)
        .and_then(|mut it| it.next())
        .map(|e| e.map(rng_norm));
    let rr = RelocateReader::new(base, rel);
    let r = RangeLists::new(DebugRanges::from(rr.clone()), DebugRngLists::from(rr))
        .raw_ranges(RangeListsOffset(START), enc)
        .and_then(|mut it| it.next())
        .map(|e| e.map(rng_norm));
    list_entry_relation(b, r, rel);
}
fn lle_case(kind: gimli::DwLle, address_size: u8, sym: usize) {
    let data = list_section(kind.0, sym);
    let base = EndianSlice::new(&data[..], any_endian());
    let rel = any_rel();
    let enc = v5(address_size);
    let b = LocationLists::new(DebugLoc::from(base), DebugLocLists::from(base))
        .raw_locations(LocationListsOffset(START), enc)
        .and_then(|mut it| it.next())
        .map(|e| e.map(loc_norm));
    let rr = RelocateReader::new(base, rel);
    let r = LocationLists::new(DebugLoc::from(rr.clone()), DebugLocLists::from(rr))
        .raw_locations(LocationListsOffset(START), enc)
        .and_then(|mut it| it.next())
        .map(|e| e.map(loc_norm));
    list_entry_relation(b, r, rel);
}
#[kani::proof]
#[kani::unwind(24)]
fn k_relocparse_rnglists_address_entries() {
    if kani::any() {
        rle_case(DW_RLE_base_address, 8, 8);
    } else if kani::any() {
        rle_case(DW_RLE_start_end, 8, 16);
    } else if kani::any() {
        rle_case(DW_RLE_start_end, 4, 8);
    } else {
        rle_case(DW_RLE_start_length, 4, 6);
    }
}
#[kani::proof]
#[kani::unwind(24)]
fn k_relocparse_rnglists_plain_entries() {
    if kani::any() {
        rle_case(DW_RLE_offset_pair, 8, 2);
    } else {
        rle_case(DW_RLE_end_of_list, 8, 2);
    }
}
#[kani::proof]
#[kani::unwind(24)]
fn k_relocparse_loclists_address_entries() {
    if kani::any() {
        lle_case(DW_LLE_base_address, 8, 8);
    } else if kani::any() {
        lle_case(DW_LLE_start_end, 4, 9);
    } else {
        lle_case(DW_LLE_start_length, 4, 6);
    }
}
#[kani::proof]
#[kani::unwind(24)]
fn k_relocparse_loclists_plain_entries() {
    if kani::any() {
        lle_case(DW_LLE_offset_pair, 8, 2);
    } else {
        lle_case(DW_LLE_default_location, 8, 2);
    }
}

/// `.debug_ranges` / `.debug_loc` (DWARF 2-4): pairs of address-sized values.  Both go through `read_address`; the
/// kind of the entry (end of list, base address selection, pair) is decided on the relocated values.
#[kani::proof]
#[kani::unwind(24)]
fn k_relocparse_ranges_bare_pair() {
    let data: [u8; LIST_LEN] = kani::any();
    let base = EndianSlice::new(&data[..], any_endian());
    let rel = any_rel();
    let address_size: u8 = if kani::any() { 4 } else { 8 };
    let enc = Encoding { format: any_format(), version: 4, address_size };
    let b = RangeLists::new(DebugRanges::from(base), DebugRngLists::from(base))
        .raw_ranges(RangeListsOffset(START), enc)
        .and_then(|mut it| it.next())
        .map(|e| e.map(rng_norm));
    let rr = RelocateReader::new(base, rel);
    let r = RangeLists::new(DebugRanges::from(rr.clone()), DebugRngLists::from(rr))
        .raw_ranges(RangeListsOffset(START), enc)
        .and_then(|mut it| it.next())
        .map(|e| e.map(rng_norm));
    let ones = !0u64 >> (64 - address_size as u32 * 8);
    // the two raw values of the bare parse
    let (begin, end) = match b {
        Ok(None) => (0, 0),
        Ok(Some(ListNorm { tag: 2, a, .. })) => (ones, a),
        Ok(Some(ListNorm { tag: 1, a, b, .. })) => (a, b),
        _ => {
            assert!(false);
            (0, 0)
        }
    };
    let (begin, end) = (begin.wrapping_add(rel.ka), end.wrapping_add(rel.ka));
    let expect = if begin == 0 && end == 0 {
        None
    } else if begin == ones {
        Some(ListNorm { tag: 2, a: end, b: 0, data: NO_DATA })
    } else {
        Some(ListNorm { tag: 1, a: begin, b: end, data: NO_DATA })
    };
    assert!(r == Ok(expect));
}

// ---- .debug_aranges ---------------------------------------------------------------------------------------------------
use gimli::DebugAranges;

type ArangesOut = (usize, Encoding, usize, Option<(u64, u64)>);
fn aranges_first<R: View>(section: R) -> Result<Option<ArangesOut>> {
    let mut headers = DebugAranges::from(section).headers();
    let Some(h) = headers.next()? else { return Ok(None) };
    let mut entries = h.entries();
    let e = entries.next_raw()?.map(|e| (e.address(), e.length()));
    Ok(Some((h.debug_info_offset().0, h.encoding(), h.length(), e)))
}
/// one set (32-bit DWARF, version 2, 8-byte addresses) with arbitrary `debug_info_offset` and one arbitrary tuple.
/// DWARF 5 section 6.1.2: `debug_info_offset` is a section offset (relocatable), the first value of a tuple is an
/// address (relocatable), the second is a LENGTH (plain).
/// Observation (not asserted, either behaviour accepted): gimli reads the length with `read_address`.
#[kani::proof]
#[kani::unwind(36)]
fn k_relocparse_aranges_set() {
    let mut data: [u8; 32] = kani::any();
    let fixed: [(usize, u8); 8] = [(0, 28), (1, 0), (2, 0), (3, 0), (4, 2), (5, 0), (10, 8), (11, 0)];
    let mut i = 0;
    while i < fixed.len() {
        data[fixed[i].0] = fixed[i].1;
        i += 1;
    }
    let base = EndianSlice::new(&data[..], RunTimeEndian::Little);
    let rel = any_rel();
    let b = aranges_first(base);
    let r = aranges_first(RelocateReader::new(base, rel));
    match (b, r) {
        (Ok(Some((b_info, b_enc, b_len, b_entry))), Ok(Some((r_info, r_enc, r_len, r_entry)))) => {
            assert!(r_info == b_info.wrapping_add(rel.ko as usize));
            assert!(r_enc == b_enc && r_len == b_len);
            // the raw tuple of the bare parse ((0, 0) is skipped as a terminator, then the set is exhausted)
            let (begin, length) = b_entry.unwrap_or((0, 0));
            let tuple = |begin: u64, length: u64| if begin == 0 && length == 0 { None } else { Some((begin, length)) };
            let begin = begin.wrapping_add(rel.ka);
            assert!(r_entry == tuple(begin, length) || r_entry == tuple(begin, length.wrapping_add(rel.ka)));
        }
        _ => assert!(false),
    }
}

// ---- .debug_frame -----------------------------------------------------------------------------------------------------
use gimli::{BaseAddresses, DebugFrame, DebugFrameOffset, UnwindSection};

/// the CIE pointer of an FDE (32- or 64-bit DWARF; arbitrary bytes after the initial length).
/// DWARF 5 section 6.4.1: `CIE_pointer` is "a constant offset into the .debug_frame section" — a section offset; the
/// writer records a relocation for it (write/cfi.rs: `w.write_offset(.., SectionId::DebugFrame, ..)`).
/// Observation (not asserted, either behaviour accepted): gimli reads it with plain `read_u32`/`read_u64`, so it is
/// NOT relocated on the read side.
/// (`initial_location` [address] / `address_range` [length, read with `read_address`] are not reachable cheaply: the
/// FDE parser continues on a CIE that comes out of a `Result`, which CBMC cannot keep concrete.)
#[kani::proof]
#[kani::unwind(44)]
fn k_relocparse_debug_frame_cie_pointer() {
    let mut data: [u8; 24] = kani::any();
    if kani::any() {
        data[0] = 20;
        data[1] = 0;
        data[2] = 0;
        data[3] = 0;
    } else {
        let fixed: [u8; 12] = [0xff, 0xff, 0xff, 0xff, 12, 0, 0, 0, 0, 0, 0, 0];
        let mut i = 0;
        while i < 12 {
            data[i] = fixed[i];
            i += 1;
        }
    }
    let base = EndianSlice::new(&data[..], RunTimeEndian::Little);
    let rel = any_rel();
    let bases = BaseAddresses::default();
    let b = DebugFrame::from(base).partial_fde_from_offset(&bases, DebugFrameOffset(0)).map(|p| p.cie_offset().0);
    let r = DebugFrame::from(RelocateReader::new(base, rel))
        .partial_fde_from_offset(&bases, DebugFrameOffset(0))
        .map(|p| p.cie_offset().0);
    match (b, r) {
        // (a CIE pointer of all ones makes the entry a CIE: Err(NotCiePointer) from both)
        (Err(eb), Err(er)) => assert!(eb == er),
        (Ok(b), Ok(r)) => assert!(r == b || r == b.wrapping_add(rel.ko as usize)),
        _ => assert!(false),
    }
}

// ---- expressions: the operations with address / section offset operands -----------------------------------------------
use gimli::{DieReference, Operation};

fn op_norm<R: View>(op: Operation<R>) -> (u8, u64, u64) {
    match op {
        Operation::Address { address } => (1, address, 0),
        Operation::Call { offset: DieReference::UnitRef(o) } => (2, o.0 as u64, 0),
        Operation::Call { offset: DieReference::DebugInfoRef(o) } => (3, o.0 as u64, 0),
        Operation::VariableValue { offset } => (4, offset.0 as u64, 0),
        Operation::ImplicitPointer { value, byte_offset } => (5, value.0 as u64, byte_offset as u64),
        Operation::UnsignedConstant { value } => (6, value, 0),
        Operation::ParameterRef { offset } => (7, offset.0 as u64, 0),
        // not produced by the opcodes below
        _ => (99, 0, 0),
    }
}
fn op_parse<R: View>(mut input: R, enc: Encoding) -> (Result<(u8, u64, u64)>, usize) {
    let r = Operation::parse(&mut input, enc).map(op_norm);
    (r, input.len())
}
/// DWARF 5 section 2.5.1: DW_OP_addr has "a single operand that encodes a machine address" (relocatable);
/// DW_OP_call_ref, DW_OP_implicit_pointer, DW_OP_GNU_variable_value take an offset into .debug_info (relocatable);
/// DW_OP_call4, DW_OP_const4u/8u, DW_OP_GNU_parameter_ref are plain.
/// Observation (not asserted): for version 2 units gimli reads the DW_OP_implicit_pointer operand with `read_address`
/// (relocated as an address, not as an offset; DW_FORM_ref_addr in the same situation uses `read_sized_offset`).
fn op_case(opcode: gimli::DwOp, sym: usize) {
    let mut env = any_env_prefix(12, true, 1 + sym);
    env.data[START] = opcode.0;
    let base = EndianSlice::new(&env.data[..], env.endian);
    let bare = base.range(START..START + env.n);
    let mut rr = RelocateReader::new(base, env.rel);
    rr.skip(START).unwrap();
    rr.truncate(env.n).unwrap();
    let (b, b_len) = op_parse(bare, env.enc);
    let (r, r_len) = op_parse(rr, env.enc);
    assert!(b_len == r_len);
    match (b, r) {
        (Err(eb), Err(er)) => assert!(eb == er),
        (Ok(b), Ok(r)) => {
            assert!(b.0 != 99);
            let ka = b.1.wrapping_add(env.rel.ka);
            let ko = (b.1 as usize).wrapping_add(env.rel.ko as usize) as u64;
            match b.0 {
                1 => assert!(r == (1, ka, b.2)),
                3 | 4 => assert!(r == (b.0, ko, b.2)),
                5 if env.enc.version >= 3 => assert!(r == (5, ko, b.2)),
                5 => assert!(r == (5, ko, b.2) || r == (5, ka, b.2)),
                _ => assert!(r == b),
            }
        }
        _ => assert!(false),
    }
}
#[kani::proof]
#[kani::unwind(24)]
fn k_relocparse_op_relocatable() {
    if kani::any() {
        op_case(DW_OP_addr, 8);
    } else if kani::any() {
        op_case(DW_OP_call_ref, 8);
    } else {
        op_case(DW_OP_GNU_variable_value, 8);
    }
}
/// (8 arbitrary bytes: the SLEB128 byte offset after an 8-byte operand is 0, after a 4-byte operand up to 4 groups)
#[kani::proof]
#[kani::unwind(24)]
fn k_relocparse_op_implicit_pointer() {
    op_case(DW_OP_implicit_pointer, 8);
}
#[kani::proof]
#[kani::unwind(24)]
fn k_relocparse_op_plain() {
    if kani::any() {
        op_case(DW_OP_call4, 4);
    } else if kani::any() {
        op_case(DW_OP_const4u, 4);
    } else if kani::any() {
        op_case(DW_OP_const8u, 8);
    } else {
        op_case(DW_OP_GNU_parameter_ref, 4);
    }
}

// ---- .debug_addr / .debug_str_offsets entries -------------------------------------------------------------------------
use gimli::{DebugAddr, DebugAddrBase, DebugAddrIndex, DebugStrOffsets, DebugStrOffsetsBase, DebugStrOffsetsIndex};

/// an entry of .debug_addr is an address, an entry of .debug_str_offsets an offset into .debug_str
#[kani::proof]
#[kani::unwind(24)]
fn k_relocparse_addr_stroffsets_entry() {
    let data: [u8; L] = kani::any();
    let base = EndianSlice::new(&data[..], any_endian());
    let rel = any_rel();
    let rr = RelocateReader::new(base, rel);
    let index: usize = if kani::any() { 0 } else { 1 };
    if kani::any() {
        let size: u8 = if kani::any() { 4 } else { 8 };
        let b = DebugAddr::from(base).get_address(size, DebugAddrBase(START), DebugAddrIndex(index));
        let r = DebugAddr::from(rr).get_address(size, DebugAddrBase(START), DebugAddrIndex(index));
        assert!(b.is_ok() && r == b.map(|a| a.wrapping_add(rel.ka)));
    } else {
        let format = any_format();
        let b = DebugStrOffsets::from(base).get_str_offset(format, DebugStrOffsetsBase(START), DebugStrOffsetsIndex(index));
        let r = DebugStrOffsets::from(rr).get_str_offset(format, DebugStrOffsetsBase(START), DebugStrOffsetsIndex(index));
        assert!(b.is_ok() && r.map(|o| o.0) == b.map(|o| o.0.wrapping_add(rel.ko as usize)));
    }
}

// ---- FINDING harnesses: strict versions of the two observations that LOSE a relocation (O5, O3) ---------------------
// They FAIL on the pinned tree and are registered as known findings; each has exactly one failing check, with a message
// the known-finding entry is keyed on.  Native reproducers: native/src/bin/f_reloc_1.rs (O5), f_reloc_2.rs (O3).

/// O5 strict: the `.debug_frame` FDE `CIE_pointer` is a section offset (DWARF 5 section 6.4.1; `write::FrameTable`
/// emits it with `write_offset(.., SectionId::DebugFrame, ..)`, i.e. a recording writer writes 0 + a relocation), so the
/// relocating reader must return `bare + ko`.  gimli reads it with `read_u32`/`read_u64` in `parse_cfi_entry_prefix`.
#[kani::proof]
#[kani::unwind(44)]
fn k_relocparse_f_fde_cie_pointer() {
    let mut data: [u8; 24] = kani::any();
    if kani::any() {
        data[0] = 20;
        data[1] = 0;
        data[2] = 0;
        data[3] = 0;
    } else {
        let fixed: [u8; 12] = [0xff, 0xff, 0xff, 0xff, 12, 0, 0, 0, 0, 0, 0, 0];
        let mut i = 0;
        while i < 12 {
            data[i] = fixed[i];
            i += 1;
        }
    }
    let base = EndianSlice::new(&data[..], RunTimeEndian::Little);
    let rel = any_rel();
    let bases = BaseAddresses::default();
    let b = DebugFrame::from(base).partial_fde_from_offset(&bases, DebugFrameOffset(0)).map(|p| p.cie_offset().0);
    let r = DebugFrame::from(RelocateReader::new(base, rel))
        .partial_fde_from_offset(&bases, DebugFrameOffset(0))
        .map(|p| p.cie_offset().0);
    if let (Ok(b), Ok(r)) = (b, r) {
        assert!(r == b.wrapping_add(rel.ko as usize), "O5: .debug_frame FDE CIE_pointer is not relocated (read with read_u32/read_u64)");
    }
}

/// O3 strict: DW_FORM_data4 in a 32-bit DWARF 2/3 unit with one of the GNU pointer attributes.  GCC emits
/// DW_AT_GNU_macros (`-g3`), DW_AT_GNU_locviews (`-gvariable-location-views`), DW_AT_GNU_ranges_base and
/// DW_AT_GNU_addr_base (`-gsplit-dwarf`) as data4 + relocation when `dwarf_version < 4` (dwarf2out.c `value_format`:
/// lineptr / macptr / loclistptr classes fall through to `DW_FORM_data4`), exactly like DW_AT_macro_info / DW_AT_ranges,
/// which `allow_section_offset` lists.  The value must come back as `bare + ko`.
#[kani::proof]
#[kani::unwind(24)]
fn k_relocparse_f_gnu_secoff_data4() {
    let mut env = any_env(5, true);
    env.enc.format = Format::Dwarf32;
    env.enc.version = if kani::any() { 2 } else { 3 };
    let name = if kani::any() {
        DW_AT_GNU_macros
    } else if kani::any() {
        DW_AT_GNU_locviews
    } else if kani::any() {
        DW_AT_GNU_ranges_base
    } else {
        DW_AT_GNU_addr_base
    };
    let base = EndianSlice::new(&env.data[..], env.endian);
    let bare = base.range(START..START + env.n);
    let mut rr = RelocateReader::new(base, env.rel);
    rr.skip(START).unwrap();
    rr.truncate(env.n).unwrap();
    let abbrevs = ManuallyDrop::new(Abbreviations::default());
    let spec = AttributeSpecification::new(name, DW_FORM_data4, None);
    let (b, _, _) = read_one(bare, env.enc, &abbrevs, spec);
    let (r, _, _) = read_one(rr, env.enc, &abbrevs, spec);
    if let (Ok((_, _, bv)), Ok((_, _, rv))) = (b, r) {
        let as_offset = rv == Norm { num: (bv.num as usize).wrapping_add(env.rel.ko as usize) as u128, ..bv };
        assert!(as_offset, "O3: DW_FORM_data4 section offset of a GNU pointer attribute in a DWARF 2/3 unit is not relocated (missing in allow_section_offset)");
    }
}
