//! K-AVEC / K-RRMAP / K-UCTX (DESIGN.md 3.3, 6 C06 / C20): Kani checks, on the REAL code, of sentences that the Verus batch
//! `cfi_unwind` assumes.
//!
//! REGISTERED (harnesses.json): the two K-AVEC harnesses at the end of this file -- the real unsafe `ArrayVec` (path-included
//! `read/util.rs`) is a sequence bounded by its capacity.  Both are BOUNDED (history length, capacity 4).
//!
//! WRITTEN BUT NOT REGISTERED (kept for the record, do not put them in a tier): the K-RRMAP / K-UCTX harnesses below take the
//! public API route -- a 4-row / 2..4-rule `UnwindContextStorage`, a hand-assembled `.debug_frame` section (concrete CIE/FDE
//! headers, concrete factors caf = 1, daf = -8) with symbolic instruction bytes, `UnwindTable::new` + `next_row`, rows compared
//! with a reference interpreter written from DWARF 5 section 6.4.2.  Every one of them (also the variants with concrete opcodes
//! and only symbolic register operands, and with only 3 instructions) ran into the 1200-2400 s timeout: symbolic execution of
//! `parse_cfi_entry` + `CallFrameInstruction::parse` inside the nested `initialize` / `next_row` loops is intractable for CBMC
//! (the same wall as DESIGN P5/P19).  The contracts of `UnwindContext::{new_in, reset, row, row_mut, save_initial_rules,
//! get_initial_rule, push_row, pop_row}` and `RegisterRuleMap::{get, set, clear}` therefore remain ASSUMED until the
//! extraction-to-Kani route (DESIGN 3.2, probe P24: seconds per harness on the extracted text) is wired into this crate.
use crate::util::ArrayVec;
use gimli::{
    BaseAddresses, CfaRule, DebugFrame, DebugFrameOffset, EndianSlice, Error, LittleEndian, ReaderOffset, Register,
    RegisterRule, UnwindContext, UnwindContextStorage, UnwindSection, UnwindTable, UnwindTableRow,
};

/// custom storage: 4 rules per row, 4 rows
struct S4;
impl<T: ReaderOffset> UnwindContextStorage<T> for S4 {
    type Rules = [(Register, RegisterRule<T>); 4];
    type Stack = [UnwindTableRow<T, Self>; 4];
}

/// 2 rules per row (so that three instructions reach the rule capacity), 4 rows
struct S2;
impl<T: ReaderOffset> UnwindContextStorage<T> for S2 {
    type Rules = [(Register, RegisterRule<T>); 2];
    type Stack = [UnwindTableRow<T, Self>; 4];
}

const NI: usize = 4; // CIE initial instruction bytes
const NF: usize = 6; // FDE instruction bytes
const CIE_LEN: usize = 4 + 4 + 1 + 1 + 1 + 1 + 1 + NI; // 13 + NI
const FDE_LEN: usize = 4 + 4 + 8 + 8 + NF;
const START: u64 = 0x1000;
const RANGE: u64 = 0x100;

/// .debug_frame: one version-1 CIE (caf 1, daf -8, ra 16) + one FDE [0x1000, 0x1100)
fn section(cie_ins: &[u8; NI], fde_ins: &[u8; NF]) -> [u8; CIE_LEN + FDE_LEN] {
    let mut b = [0u8; CIE_LEN + FDE_LEN];
    b[0] = (CIE_LEN - 4) as u8;
    b[4] = 0xff;
    b[5] = 0xff;
    b[6] = 0xff;
    b[7] = 0xff;
    b[8] = 1; // version
    b[9] = 0; // augmentation ""
    b[10] = 1; // code alignment factor
    b[11] = 0x78; // data alignment factor -8
    b[12] = 16; // return address register
    let mut i = 0;
    while i < NI {
        b[13 + i] = cie_ins[i];
        i += 1;
    }
    let f = CIE_LEN;
    b[f] = (FDE_LEN - 4) as u8;
    // CIE pointer = 0
    b[f + 8] = 0x00;
    b[f + 9] = 0x10; // initial location 0x1000
    b[f + 16] = 0x00;
    b[f + 17] = 0x01; // address range 0x100
    let mut i = 0;
    while i < NF {
        b[f + 24 + i] = fde_ins[i];
        i += 1;
    }
    b
}

// ------------------------------------------------------------------------------------------------ K-RRMAP
/// RegisterRuleMap is a finite map with a capacity (get / set / clear through DW_CFA_undefined, same_value, restore).
/// bounded(3 instructions, registers < 4, capacity 2)
#[kani::proof]
#[kani::unwind(8)]
fn k_rrmap_finite_map_cap2() {
    const N: usize = 3;
    let mut fde = [0u8; NF];
    // model: rule of register r: 0 none, 1 undefined, 2 same_value
    let mut model = [0u8; 4];
    let mut count = 0usize;
    let mut model_err = false;
    let mut i = 0;
    while i < N {
        let c: u8 = kani::any();
        let r: u8 = kani::any();
        kani::assume(c < 3 && r < 4);
        if c == 2 {
            fde[2 * i] = 0xc0 | r; // DW_CFA_restore r : initial rules are empty -> the rule is removed
            fde[2 * i + 1] = 0;
        } else {
            fde[2 * i] = if c == 0 { 0x07 } else { 0x08 }; // DW_CFA_undefined / DW_CFA_same_value, ULEB register
            fde[2 * i + 1] = r;
        }
        if !model_err {
            if c == 2 {
                if model[r as usize] != 0 {
                    model[r as usize] = 0;
                    count -= 1;
                }
            } else if model[r as usize] == 0 && count == 2 {
                model_err = true; // a third register does not fit
            } else {
                if model[r as usize] == 0 {
                    count += 1;
                }
                model[r as usize] = c + 1;
            }
        }
        i += 1;
    }
    let buf = section(&[0; NI], &fde);
    let mut sec = DebugFrame::new(&buf, LittleEndian);
    sec.set_address_size(8);
    let bases = BaseAddresses::default();
    let fde = sec.fde_from_offset(&bases, DebugFrameOffset(CIE_LEN), DebugFrame::cie_from_offset).unwrap();
    let mut ctx = UnwindContext::<usize, S2>::new_in();
    let mut table = UnwindTable::new(&sec, &bases, &mut ctx, &fde).unwrap();
    match table.next_row() {
        Err(e) => {
            assert!(model_err);
            assert!(e == Error::TooManyRegisterRules);
        }
        Ok(None) => assert!(false),
        Ok(Some(row)) => {
            assert!(!model_err);
            assert!(row.start_address() == START && row.end_address() == START + RANGE);
            let mut r = 0u16;
            while r < 4 {
                let got = row.register(Register(r));
                match model[r as usize] {
                    0 => assert!(got.is_none()),
                    1 => assert!(got == Some(RegisterRule::Undefined)),
                    _ => assert!(got == Some(RegisterRule::SameValue)),
                }
                r += 1;
            }
            // the iterator yields exactly the defined pairs (no duplicates, no stale entries)
            let mut n = 0usize;
            for &(reg, ref rule) in row.registers() {
                assert!(reg.0 < 4 && model[reg.0 as usize] != 0);
                assert!(Some(rule.clone()) == row.register(reg));
                n += 1;
            }
            assert!(n == count);
        }
    }
}


/// cheaper variant of the finite-map check: CONCRETE opcodes (so that CBMC prunes the decoder), symbolic register operands.
/// kinds: 0 = DW_CFA_undefined r, 1 = DW_CFA_same_value r, 2 = DW_CFA_restore_extended r (initial rules empty: removes the rule)
fn rrmap_program(kinds: [u8; 3]) {
    let mut fde = [0u8; NF];
    let mut model = [0u8; 4];
    let mut count = 0usize;
    let mut model_err = false;
    let mut i = 0;
    while i < 3 {
        let r: u8 = kani::any();
        kani::assume(r < 4);
        let c = kinds[i];
        fde[2 * i] = if c == 0 { 0x07 } else if c == 1 { 0x08 } else { 0x06 };
        fde[2 * i + 1] = r;
        if !model_err {
            if c == 2 {
                if model[r as usize] != 0 {
                    model[r as usize] = 0;
                    count -= 1;
                }
            } else if model[r as usize] == 0 && count == 2 {
                model_err = true;
            } else {
                if model[r as usize] == 0 {
                    count += 1;
                }
                model[r as usize] = c + 1;
            }
        }
        i += 1;
    }
    let buf = section(&[0; NI], &fde);
    let mut sec = DebugFrame::new(&buf, LittleEndian);
    sec.set_address_size(8);
    let bases = BaseAddresses::default();
    let fde = sec.fde_from_offset(&bases, DebugFrameOffset(CIE_LEN), DebugFrame::cie_from_offset).unwrap();
    let mut ctx = UnwindContext::<usize, S2>::new_in();
    let mut table = UnwindTable::new(&sec, &bases, &mut ctx, &fde).unwrap();
    match table.next_row() {
        Err(e) => assert!(model_err && e == Error::TooManyRegisterRules),
        Ok(None) => assert!(false),
        Ok(Some(row)) => {
            assert!(!model_err);
            let mut r = 0u16;
            while r < 4 {
                let got = row.register(Register(r));
                match model[r as usize] {
                    0 => assert!(got.is_none()),
                    1 => assert!(got == Some(RegisterRule::Undefined)),
                    _ => assert!(got == Some(RegisterRule::SameValue)),
                }
                r += 1;
            }
        }
    }
}

/// bounded(3 set instructions with symbolic registers < 4, capacity 2: overwrite, insert, TooManyRegisterRules)
#[kani::proof]
#[kani::unwind(8)]
fn k_rrmap_set_set_set_cap2() {
    rrmap_program([0, 1, 0]);
}

/// bounded(set, set, clear with symbolic registers < 4, capacity 2: swap_remove keeps the other rule)
#[kani::proof]
#[kani::unwind(8)]
fn k_rrmap_set_set_clear_cap2() {
    rrmap_program([0, 1, 2]);
}

// ------------------------------------------------------------------------------------------------ K-UCTX
/// remember_state / restore_state / restore against a reference stack, with 0, 1 or 2 CIE initial rules (the three
/// representations of the initial rules: none, inline single rule, hidden bottom row), capacity 4 rows.
/// bounded(3 instructions from {remember, restore_state, def_cfa_offset k, undefined r1, restore r1})
#[kani::proof]
#[kani::unwind(8)]
fn k_uctx_state_stack_cap4() {
    const N: usize = 3;
    let ni: u8 = kani::any();
    kani::assume(ni <= 2);
    let mut cie = [0u8; NI];
    if ni >= 1 {
        cie[0] = 0x08; // same_value r1
        cie[1] = 1;
    }
    if ni >= 2 {
        cie[2] = 0x08; // same_value r2
        cie[3] = 2;
    }
    let reserved = if ni >= 2 { 1usize } else { 0 };
    // model row = (cfa offset, rule of r1: 0 none 1 undefined 2 same_value)
    let init_r1 = if ni >= 1 { 2u8 } else { 0u8 };
    let mut st = [(0u8, 0u8); 5];
    st[0] = (0, init_r1);
    let mut depth = 1usize;
    let mut err: u8 = 0; // 1 StackFull 2 PopWithEmptyStack
    let mut fde = [0u8; NF];
    let mut i = 0;
    while i < N {
        let c: u8 = kani::any();
        kani::assume(c < 5);
        let k: u8 = kani::any();
        kani::assume(k < 4);
        let (b0, b1) = match c {
            0 => (0x0a, 0x00),     // remember_state
            1 => (0x0b, 0x00),     // restore_state
            2 => (0x0e, k),        // def_cfa_offset k
            3 => (0x07, 0x01),     // undefined r1
            _ => (0xc0 | 1, 0x00), // restore r1
        };
        fde[2 * i] = b0;
        fde[2 * i + 1] = b1;
        if err == 0 {
            match c {
                0 => {
                    if depth + reserved == 4 {
                        err = 1;
                    } else {
                        st[depth] = st[depth - 1];
                        depth += 1;
                    }
                }
                1 => {
                    if depth <= 1 {
                        err = 2;
                    } else {
                        depth -= 1;
                    }
                }
                2 => st[depth - 1].0 = k,
                3 => st[depth - 1].1 = 1,
                _ => st[depth - 1].1 = init_r1,
            }
        }
        i += 1;
    }
    let buf = section(&cie, &fde);
    let mut sec = DebugFrame::new(&buf, LittleEndian);
    sec.set_address_size(8);
    let bases = BaseAddresses::default();
    let fde = sec.fde_from_offset(&bases, DebugFrameOffset(CIE_LEN), DebugFrame::cie_from_offset).unwrap();
    let mut ctx = UnwindContext::<usize, S4>::new_in();
    let mut table = UnwindTable::new(&sec, &bases, &mut ctx, &fde).unwrap();
    match table.next_row() {
        Err(e) => {
            assert!(err != 0);
            assert!(if err == 1 { e == Error::StackFull } else { e == Error::PopWithEmptyStack });
        }
        Ok(None) => assert!(false),
        Ok(Some(row)) => {
            assert!(err == 0);
            let top = st[depth - 1];
            assert!(*row.cfa() == CfaRule::RegisterAndOffset { register: Register(0), offset: top.0 as i64 });
            let got = row.register(Register(1));
            match top.1 {
                0 => assert!(got.is_none()),
                1 => assert!(got == Some(RegisterRule::Undefined)),
                _ => assert!(got == Some(RegisterRule::SameValue)),
            }
            // r2 keeps its initial rule on every row
            assert!(row.register(Register(2)) == if ni >= 2 { Some(RegisterRule::SameValue) } else { None });
            assert!(row.start_address() == START && row.end_address() == START + RANGE);
        }
    }
}

/// observable content of a row
fn obs(row: &UnwindTableRow<usize, S4>) -> (u64, u64, u64, CfaRule<usize>, [Option<RegisterRule<usize>>; 4]) {
    (
        row.start_address(),
        row.end_address(),
        row.saved_args_size(),
        row.cfa().clone(),
        [row.register(Register(0)), row.register(Register(1)), row.register(Register(2)), row.register(Register(3))],
    )
}

/// C20: a context that was used for an ARBITRARY earlier table (symbolic CIE initial instructions and FDE instructions, over
/// the whole opcode alphabet, successful or failing at any point, abandoned at any row) gives exactly the rows of a fresh
/// context on the next table.   bounded(earlier program: 2 + 3 symbolic bytes, abandoned after <= 3 rows; later program fixed)
#[kani::proof]
#[kani::unwind(8)]
fn k_uctx_reuse_equals_fresh() {
    // earlier use
    let ca: [u8; 2] = kani::any();
    let fa: [u8; 3] = kani::any();
    let mut cie_a = [0u8; NI];
    cie_a[0] = ca[0];
    cie_a[1] = ca[1];
    let mut fde_a = [0u8; NF];
    fde_a[0] = fa[0];
    fde_a[1] = fa[1];
    fde_a[2] = fa[2];
    let buf_a = section(&cie_a, &fde_a);
    let mut sec_a = DebugFrame::new(&buf_a, LittleEndian);
    sec_a.set_address_size(8);
    let bases = BaseAddresses::default();
    let mut ctx = UnwindContext::<usize, S4>::new_in();
    if let Ok(fde) = sec_a.fde_from_offset(&bases, DebugFrameOffset(CIE_LEN), DebugFrame::cie_from_offset) {
        if let Ok(mut table) = UnwindTable::new(&sec_a, &bases, &mut ctx, &fde) {
            let stop: u8 = kani::any();
            let mut n = 0u8;
            while n < 3 && n < stop {
                let _ = table.next_row(); // errors ignored on purpose
                n += 1;
            }
        }
    }
    // later use: two initial rules, then remember / modify / advance / restore_state / restore
    let cie_b = [0x08, 1, 0x07, 2];
    let fde_b = [0x0a, 0x0e, 0x10, 0x41, 0x0b, 0xc2];
    let buf_b = section(&cie_b, &fde_b);
    let mut sec_b = DebugFrame::new(&buf_b, LittleEndian);
    sec_b.set_address_size(8);
    let fde = sec_b.fde_from_offset(&bases, DebugFrameOffset(CIE_LEN), DebugFrame::cie_from_offset).unwrap();
    let mut fresh = UnwindContext::<usize, S4>::new_in();
    let mut t1 = UnwindTable::new(&sec_b, &bases, &mut ctx, &fde).unwrap();
    let mut t2 = UnwindTable::new(&sec_b, &bases, &mut fresh, &fde).unwrap();
    let mut n = 0;
    while n < 3 {
        let r1 = t1.next_row();
        let r2 = t2.next_row();
        match (r1, r2) {
            (Ok(Some(a)), Ok(Some(b))) => assert!(obs(a) == obs(b)),
            (Ok(None), Ok(None)) => {}
            (Err(a), Err(b)) => assert!(a == b),
            _ => assert!(false),
        }
        n += 1;
    }
}

// ------------------------------------------------------------------------------------------------ K-AVEC
/// the real (unsafe) ArrayVec over `[u8; 4]` is a sequence bounded by its capacity: try_push / pop / try_insert /
/// swap_remove / clear / Deref against a model array.   bounded(6 operations, capacity 4); CBMC pointer checks on.
#[kani::proof]
#[kani::unwind(8)]
fn k_avec_sequence_model_cap4() {
    let mut v: ArrayVec<[u8; 4]> = ArrayVec::new();
    let mut m = [0u8; 4];
    let mut len = 0usize;
    let mut i = 0;
    while i < 6 {
        let op: u8 = kani::any();
        let x: u8 = kani::any();
        let idx: usize = kani::any();
        match op % 5 {
            0 => {
                let r = v.try_push(x);
                assert!(r.is_ok() == (len < 4));
                if len < 4 {
                    m[len] = x;
                    len += 1;
                }
            }
            1 => {
                let r = v.pop();
                if len == 0 {
                    assert!(r.is_none());
                } else {
                    len -= 1;
                    assert!(r == Some(m[len]));
                }
            }
            2 => {
                kani::assume(idx <= len); // documented precondition (assert! in the code)
                let r = v.try_insert(idx, x);
                assert!(r.is_ok() == (len < 4));
                if len < 4 {
                    let mut j = len;
                    while j > idx {
                        m[j] = m[j - 1];
                        j -= 1;
                    }
                    m[idx] = x;
                    len += 1;
                }
            }
            3 => {
                kani::assume(idx < len);
                let r = v.swap_remove(idx);
                assert!(r == m[idx]);
                m[idx] = m[len - 1];
                len -= 1;
            }
            _ => {
                v.clear();
                len = 0;
            }
        }
        assert!(v.len() == len);
        assert!(v.is_empty() == (len == 0));
        let mut j = 0;
        while j < len {
            assert!(v[j] == m[j]);
            j += 1;
        }
        assert!(v.last().copied() == if len == 0 { None } else { Some(m[len - 1]) });
        i += 1;
    }
}

/// same sentences for the heap storage `Box<[u8; 4]>` (shorter history).   bounded(4 operations, capacity 4)
#[kani::proof]
#[kani::unwind(8)]
fn k_avec_boxed_push_pop_cap4() {
    let mut v: ArrayVec<alloc::boxed::Box<[u8; 4]>> = ArrayVec::new();
    let n: usize = kani::any();
    kani::assume(n <= 5);
    let mut m = [0u8; 5];
    let mut i = 0;
    while i < n {
        let x: u8 = kani::any();
        m[i] = x;
        let r = v.try_push(x);
        assert!(r.is_ok() == (i < 4));
        i += 1;
    }
    let len = if n < 4 { n } else { 4 };
    assert!(v.len() == len);
    if len > 0 {
        assert!(v[len - 1] == m[len - 1]);
        assert!(v.pop() == Some(m[len - 1]));
        assert!(v.len() == len - 1);
    } else {
        assert!(v.pop().is_none());
    }
}
