//! K-EXPRW (C15): discharges the ASSUMED contract of `write::Expression::write` (R-EXTBODY in the Verus batch vx/batches/wop.py:
//! its body uses iterator adapters) on the REAL TEXT of /repo/src/write/op.rs, for expressions of <= 3 operations without nested
//! expressions.  `Expression::{size, write}` are `pub(crate)` and the public routes to them (FrameTable / Dwarf) go through
//! IndexSet tables that CBMC does not get through (> 25 min for one operation), so the text is compiled into this crate by
//! extraction (kani/gen_exprw.py -> src/gen/exprw_items.rs, regenerated from $GIMLI_REPO on every run): struct Expression,
//! impl Expression, enum Operation, impl Operation VERBATIM, with one logged rewrite R-NOREC: the two `Operation::EntryValue`
//! arms (the only recursion) become `unreachable!()`.  
//!
//! Every harness builds an expression through the public `op_*` builders, writes it at a non-zero section offset with
//! `Expression::write(&mut W, None, encoding, None)` (the call `CallFrameInstruction::write` makes) and asserts
//!   (1) `size()` and `write()` are Ok and the section grew by exactly `size()` (the three `debug_assert_eq!(w.len(), offset)` of
//!       the real body - "each operation starts at the running sum of the sizes" - are checked by Kani on the way);
//!   (2) a reference decoder (below, from DWARF 5 2.5 / 7.7.1) decodes exactly as many operations as were built, each one the
//!       operation built (kind and every operand; the short forms lit0..31 / reg0..31 / breg0..31 / dup / over decode to the same
//!       operation), and ends exactly at the end of the written bytes;
//!   (3) every `DW_OP_skip` / `DW_OP_bra` lands on the first byte of the operation given to `set_target` (or on the end of the
//!       expression for the one-past-the-end target): end of the branch operation + decoded displacement == offset of the target.
//! Bounds: N operations per harness (N = 1, 2 quick; 3 thorough), ULEB128/SLEB128 operands of at most 3 groups
//! (values < 2^21, |signed| < 2^20: unwind 4), no nested expression (R-NOREC), `unit_offsets = None`, `refs = None`,
//! DWARF 4, 32-bit format, address size 4, little endian.  Sanity (scratch copies of /repo, DESIGN 11): displacement computed
//! with `w.len() + 3` FAILS k_exprw_branch*; `write_u16(offset as u16)` instead of `write_sdata(offset, 2)` passes (same bytes
//! for every in-range displacement; the out-of-range case is the Verus clause [C15:branch-range-err]).
mod real {
    use alloc::boxed::Box;
    use alloc::vec::Vec;
    use gimli::constants::{self, DwOp};
    use gimli::leb128::write::{sleb128_size, uleb128_size};
    use gimli::write::{Address, DebugInfoRef, Error, Result, UnitEntryId, UnitId, Writer};
    use gimli::{Encoding, Register};

    /// STAND-IN for the crate-private `write::unit::UnitOffsets`: cannot be constructed (the harnesses pass `None`)
    #[derive(Debug)]
    pub(crate) struct UnitOffsets {
        never: core::convert::Infallible,
    }
    impl UnitOffsets {
        pub(crate) fn unit_offset(&self, _entry: UnitEntryId) -> Option<u64> {
            match self.never {}
        }
    }
    /// STAND-IN for the crate-private `write::unit::DebugInfoFixup` (same fields); the harnesses pass `refs = None`
    #[derive(Debug, Clone, Copy)]
    pub(crate) struct DebugInfoFixup {
        pub offset: usize,
        pub size: u8,
        pub unit: UnitId,
        pub entry: UnitEntryId,
    }
    include!("gen/exprw_items.rs");
}

use self::real::Expression;
use gimli::write::{Error, Writer};
use gimli::{Encoding, Format, LittleEndian, Register};

const ENC: Encoding = Encoding { address_size: 4, format: Format::Dwarf32, version: 4 };
/// bytes already in the section when the expression is written (offsets handed to the operations are section offsets)
const BASE: usize = 3;

/// the section writer of this group: a fixed buffer on the stack.  (gimli's `EndianVec` was the first choice; as soon as the
/// section length is symbolic - after the first operation of symbolic size - every `Vec::extend_from_slice` drags its
/// reallocation path with symbolic sizes into the model: two operations did not finish in 15 CPU-min.  That EndianVec satisfies
/// the `Writer` contract is K-WPRIM's subject; `Expression::write` is generic in the writer.)  Only the four REQUIRED methods are
/// implemented here; write_u8 / write_u16 / write_sdata / write_uleb128 / write_sleb128 .. are gimli's own default methods.
const CAP: usize = 24;
struct ArrW {
    buf: [u8; CAP],
    len: usize,
}
impl Writer for ArrW {
    type Endian = LittleEndian;
    fn endian(&self) -> LittleEndian {
        LittleEndian
    }
    fn len(&self) -> usize {
        self.len
    }
    fn write(&mut self, bytes: &[u8]) -> gimli::write::Result<()> {
        if bytes.len() > CAP - self.len {
            return Err(Error::LengthOutOfBounds);
        }
        let mut i = 0;
        while i < bytes.len() {
            self.buf[self.len + i] = bytes[i];
            i += 1;
        }
        self.len += bytes.len();
        Ok(())
    }
    fn write_at(&mut self, offset: usize, bytes: &[u8]) -> gimli::write::Result<()> {
        if offset > self.len || bytes.len() > self.len - offset {
            return Err(Error::OffsetOutOfBounds);
        }
        let mut i = 0;
        while i < bytes.len() {
            self.buf[offset + i] = bytes[i];
            i += 1;
        }
        Ok(())
    }
}

/// one operation as BUILT (the argument list of the public builder)
#[derive(Clone, Copy)]
enum B {
    ConstU(u64),
    ConstS(i64),
    PlusU(u64),
    Fbreg(i64),
    Reg(u16),
    Breg(u16, i64),
    Piece(u64),
    Deref,
    DerefSize(u8),
    XDerefSize(u8),
    Pick(u8),
    Nop,
    /// op_skip / op_bra + set_target(this, target)
    Skip(usize),
    Bra(usize),
}

fn uval() -> u64 {
    let v: u64 = kani::any();
    kani::assume(v < 0x20_0000);
    v
}
fn sval() -> i64 {
    let v: i64 = kani::any();
    kani::assume(-0x10_0000 <= v && v < 0x10_0000);
    v
}

fn push(e: &mut Expression, b: B) {
    match b {
        B::ConstU(v) => e.op_constu(v),
        B::ConstS(v) => e.op_consts(v),
        B::PlusU(v) => e.op_plus_uconst(v),
        B::Fbreg(v) => e.op_fbreg(v),
        B::Reg(r) => e.op_reg(Register(r)),
        B::Breg(r, o) => e.op_breg(Register(r), o),
        B::Piece(n) => e.op_piece(n),
        B::Deref => e.op_deref(),
        B::DerefSize(n) => e.op_deref_size(n),
        B::XDerefSize(n) => e.op_xderef_size(n),
        B::Pick(i) => e.op_pick(i),
        B::Nop => e.op(gimli::DW_OP_nop),
        B::Skip(_) => {
            e.op_skip();
        }
        B::Bra(_) => {
            e.op_bra();
        }
    }
}

/// REFERENCE DECODER for the alphabet of this group, written from DWARF 5 section 2.5 / 7.7.1 (opcode values, operand
/// encodings); independent of gimli.  (gimli's own `read::Operation::parse` was tried as the decoder: its ~170 arms are all
/// explored for every operation because CBMC cannot resolve bytes read back from the heap buffer: > 15 min for ONE operation.
/// That the writer's opcode/operand table is the reader's table is the build-time cross-check of the Verus batch wop against
/// op.OPS; this group decides what Verus could not: the offsets bookkeeping of `Expression::write`.)
fn uleb(s: &[u8], p: usize) -> Option<(u64, usize)> {
    let mut v = 0u64;
    let mut k = 0;
    while k < 3 {
        if p + k >= s.len() {
            return None;
        }
        let b = s[p + k];
        v |= ((b & 0x7f) as u64) << (7 * k);
        if b & 0x80 == 0 {
            return Some((v, p + k + 1));
        }
        k += 1;
    }
    None
}
fn sleb(s: &[u8], p: usize) -> Option<(i64, usize)> {
    match uleb(s, p) {
        Some((v, q)) => {
            let bits = 7 * (q - p) as u32;
            let v = if v & (1u64 << (bits - 1)) != 0 { (v | (!0u64 << bits)) as i64 } else { v as i64 };
            Some((v, q))
        }
        None => None,
    }
}
fn byte(s: &[u8], p: usize) -> Option<u8> {
    if p < s.len() {
        Some(s[p])
    } else {
        None
    }
}

/// decoded operation: the `B` vocabulary, branches carry the 2-byte signed displacement
#[derive(Clone, Copy)]
enum D {
    Op(B),
    Skip(i16),
    Bra(i16),
}

fn decode(s: &[u8], p: usize) -> Option<(D, usize)> {
    let opc = byte(s, p)?;
    let q = p + 1;
    let r = if (0x30..=0x4f).contains(&opc) {
        (D::Op(B::ConstU((opc - 0x30) as u64)), q) // DW_OP_lit0..31
    } else if (0x50..=0x6f).contains(&opc) {
        (D::Op(B::Reg((opc - 0x50) as u16)), q) // DW_OP_reg0..31
    } else if (0x70..=0x8f).contains(&opc) {
        let (o, q) = sleb(s, q)?; // DW_OP_breg0..31
        (D::Op(B::Breg((opc - 0x70) as u16, o)), q)
    } else {
        match opc {
            0x10 => {
                let (v, q) = uleb(s, q)?; // DW_OP_constu
                (D::Op(B::ConstU(v)), q)
            }
            0x11 => {
                let (v, q) = sleb(s, q)?; // DW_OP_consts
                (D::Op(B::ConstS(v)), q)
            }
            0x23 => {
                let (v, q) = uleb(s, q)?; // DW_OP_plus_uconst
                (D::Op(B::PlusU(v)), q)
            }
            0x91 => {
                let (v, q) = sleb(s, q)?; // DW_OP_fbreg
                (D::Op(B::Fbreg(v)), q)
            }
            0x90 => {
                let (r, q) = uleb(s, q)?; // DW_OP_regx
                if r > 0xffff {
                    return None;
                }
                (D::Op(B::Reg(r as u16)), q)
            }
            0x92 => {
                let (r, q) = uleb(s, q)?; // DW_OP_bregx
                let (o, q) = sleb(s, q)?;
                if r > 0xffff {
                    return None;
                }
                (D::Op(B::Breg(r as u16, o)), q)
            }
            0x93 => {
                let (n, q) = uleb(s, q)?; // DW_OP_piece
                (D::Op(B::Piece(n)), q)
            }
            0x06 => (D::Op(B::Deref), q),                        // DW_OP_deref
            0x94 => (D::Op(B::DerefSize(byte(s, q)?)), q + 1),   // DW_OP_deref_size
            0x95 => (D::Op(B::XDerefSize(byte(s, q)?)), q + 1),  // DW_OP_xderef_size
            0x12 => (D::Op(B::Pick(0)), q),                      // DW_OP_dup
            0x14 => (D::Op(B::Pick(1)), q),                      // DW_OP_over
            0x15 => (D::Op(B::Pick(byte(s, q)?)), q + 1),        // DW_OP_pick
            0x96 => (D::Op(B::Nop), q),                          // DW_OP_nop
            0x2f => (D::Skip(i16::from_le_bytes([byte(s, q)?, byte(s, q + 1)?])), q + 2), // DW_OP_skip
            0x28 => (D::Bra(i16::from_le_bytes([byte(s, q)?, byte(s, q + 1)?])), q + 2),  // DW_OP_bra
            _ => return None,
        }
    };
    Some(r)
}

/// the decoded operation is the operation built
fn same(b: B, d: D) -> bool {
    match (b, d) {
        (B::ConstU(v), D::Op(B::ConstU(x))) => x == v,
        (B::ConstS(v), D::Op(B::ConstS(x))) => x == v,
        (B::PlusU(v), D::Op(B::PlusU(x))) => x == v,
        (B::Fbreg(v), D::Op(B::Fbreg(x))) => x == v,
        (B::Reg(r), D::Op(B::Reg(x))) => x == r,
        (B::Breg(r, o), D::Op(B::Breg(x, y))) => x == r && y == o,
        (B::Piece(n), D::Op(B::Piece(x))) => x == n,
        (B::Deref, D::Op(B::Deref)) => true,
        (B::DerefSize(n), D::Op(B::DerefSize(x))) => x == n,
        (B::XDerefSize(n), D::Op(B::XDerefSize(x))) => x == n,
        (B::Pick(i), D::Op(B::Pick(x))) => x == i,
        (B::Nop, D::Op(B::Nop)) => true,
        (B::Skip(_), D::Skip(_)) => true,
        (B::Bra(_), D::Bra(_)) => true,
        _ => false,
    }
}

/// build, write, decode and compare `n` operations (n <= 3)
fn check(bs: [B; 3], n: usize) {
    let mut e = Expression::new();
    let mut i = 0;
    while i < n {
        push(&mut e, bs[i]);
        i += 1;
    }
    assert!(e.next_index() == n);
    i = 0;
    while i < n {
        match bs[i] {
            B::Skip(t) | B::Bra(t) => e.set_target(i, t),
            _ => {}
        }
        i += 1;
    }
    let mut w = ArrW { buf: [0; CAP], len: 0 };
    assert!(w.write(&[0xa5; BASE]).is_ok());
    let size = match e.size(ENC, None) {
        Ok(s) => s,
        Err(_) => {
            assert!(false);
            return;
        }
    };
    // (1)
    assert!(e.write(&mut w, None, ENC, None).is_ok());
    assert!(w.len() == BASE + size);
    // (2)
    let s = &w.buf[..w.len];
    let mut p = BASE;
    let mut off = [0usize; 4];
    let mut disp = [0i64; 3];
    i = 0;
    while i < n {
        off[i] = p - BASE;
        match decode(s, p) {
            Some((d, q)) => {
                assert!(same(bs[i], d));
                match d {
                    D::Skip(t) | D::Bra(t) => disp[i] = t as i64,
                    _ => {}
                }
                p = q;
            }
            None => assert!(false),
        }
        i += 1;
    }
    off[n] = p - BASE;
    assert!(p == s.len());
    assert!(off[n] == size);
    // (3)
    i = 0;
    while i < n {
        match bs[i] {
            B::Skip(t) | B::Bra(t) => assert!(off[i + 1] as i64 + disp[i] == off[t] as i64),
            _ => {}
        }
        i += 1;
    }
    // `Operation` is a recursive type: no drop glue in the model
    core::mem::forget(e);
}

/// constants: DW_OP_lit0..31 / DW_OP_constu (boundary 31/32 and the 1/2/3-group ULEB128 boundaries are inside the range),
/// DW_OP_consts, DW_OP_plus_uconst, DW_OP_fbreg
fn any_const() -> B {
    let k: u8 = kani::any();
    if k == 0 {
        B::ConstU(uval())
    } else if k == 1 {
        B::ConstS(sval())
    } else if k == 2 {
        B::PlusU(uval())
    } else {
        B::Fbreg(sval())
    }
}
/// register forms: DW_OP_reg0..31 / DW_OP_regx, DW_OP_breg0..31 / DW_OP_bregx (every u16 register: 31/32 inside), DW_OP_piece
fn any_reg() -> B {
    let k: u8 = kani::any();
    if k == 0 {
        B::Reg(kani::any())
    } else if k == 1 {
        B::Breg(kani::any(), sval())
    } else {
        B::Piece(uval())
    }
}
/// stack / memory forms: DW_OP_deref, DW_OP_deref_size, DW_OP_xderef_size, DW_OP_dup / DW_OP_over / DW_OP_pick, DW_OP_nop
fn any_stack() -> B {
    let k: u8 = kani::any();
    if k == 0 {
        B::Deref
    } else if k == 1 {
        B::DerefSize(kani::any())
    } else if k == 2 {
        B::XDerefSize(kani::any())
    } else if k == 3 {
        B::Pick(kani::any())
    } else {
        B::Nop
    }
}
/// fillers of three different sizes around a branch: 1 byte (lit / nop), 2..4 bytes (constu)
fn any_filler() -> B {
    if kani::any() {
        B::ConstU(uval())
    } else {
        B::Nop
    }
}
fn any_branch(n: usize, at: usize) -> B {
    let t: usize = kani::any();
    kani::assume(t <= n && t != at);
    if kani::any() {
        B::Skip(t)
    } else {
        B::Bra(t)
    }
}

// ---- fixed SHAPES (operation kinds concrete, every operand / target symbolic): the affordable end of the group.
// (The `class_harness!` / `branch_harness!` forms below choose the KIND of every operation symbolically as well; one operation of
// a 4-kind alphabet did not finish in 12 CPU-min / 5 GB, they are registered `disabled` for machines with more time.)
macro_rules! shape_harness {
    ($name:ident, $n:expr, [$($b:expr),*]) => {
        #[kani::proof]
        #[kani::unwind(4)]
        fn $name() {
            check([$($b),*], $n);
        }
    };
}
fn target(n: usize, at: usize) -> usize {
    let t: usize = kani::any();
    kani::assume(t <= n && t != at);
    t
}
// one operation
shape_harness!(k_exprw_s1_constu, 1, [B::ConstU(uval()), B::Nop, B::Nop]);
shape_harness!(k_exprw_s1_breg, 1, [B::Breg(kani::any(), sval()), B::Nop, B::Nop]);
shape_harness!(k_exprw_s1_reg, 1, [B::Reg(kani::any()), B::Nop, B::Nop]);
// two operations: the second starts at a symbolic offset
shape_harness!(k_exprw_s2_constu_plus, 2, [B::ConstU(uval()), B::PlusU(uval()), B::Nop]);
shape_harness!(k_exprw_s2_reg_piece, 2, [B::Reg(kani::any()), B::Piece(uval()), B::Nop]);
shape_harness!(k_exprw_s2_pick_deref, 2, [B::Pick(kani::any()), B::DerefSize(kani::any()), B::Nop]);
// branches: forward over / backward to an operation of symbolic size, any legal target
shape_harness!(k_exprw_s2_skip_constu, 2, [B::Skip(target(2, 0)), B::ConstU(uval()), B::Nop]);
shape_harness!(k_exprw_s2_constu_bra, 2, [B::ConstU(uval()), B::Bra(target(2, 1)), B::Nop]);
shape_harness!(k_exprw_s3_bra_constu_skip, 3, [B::Bra(target(3, 0)), B::ConstU(uval()), B::Skip(target(3, 2))]);
shape_harness!(k_exprw_s3_consts_skip_breg, 3, [B::ConstS(sval()), B::Skip(target(3, 1)), B::Breg(kani::any(), sval())]);

macro_rules! class_harness {
    ($name:ident, $gen:ident, $n:expr) => {
        #[kani::proof]
        #[kani::unwind(4)]
        fn $name() {
            let mut bs = [B::Nop; 3];
            let mut i = 0;
            while i < $n {
                bs[i] = $gen();
                i += 1;
            }
            check(bs, $n);
        }
    };
}
class_harness!(k_exprw_const_n1, any_const, 1);
class_harness!(k_exprw_const_n2, any_const, 2);
class_harness!(k_exprw_const_n3, any_const, 3);
class_harness!(k_exprw_reg_n1, any_reg, 1);
class_harness!(k_exprw_reg_n2, any_reg, 2);
class_harness!(k_exprw_reg_n3, any_reg, 3);
class_harness!(k_exprw_stack_n1, any_stack, 1);
class_harness!(k_exprw_stack_n2, any_stack, 2);
class_harness!(k_exprw_stack_n3, any_stack, 3);

macro_rules! branch_harness {
    ($name:ident, $n:expr) => {
        /// one branch (skip or bra) at a symbolic position among fillers of symbolic size, target = any other index 0..=n
        /// (earlier, later, one past the end)
        #[kani::proof]
        #[kani::unwind(4)]
        fn $name() {
            let at: usize = kani::any();
            kani::assume(at < $n);
            let mut bs = [B::Nop; 3];
            let mut i = 0;
            while i < $n {
                bs[i] = if i == at { any_branch($n, at) } else { any_filler() };
                i += 1;
            }
            check(bs, $n);
        }
    };
}
branch_harness!(k_exprw_branch_n2, 2);
branch_harness!(k_exprw_branch_n3, 3);

/// two branches: a forward one and a backward one crossing each other (op0 -> end, op2 -> op0), a filler in between
#[kani::proof]
#[kani::unwind(4)]
fn k_exprw_branch_pair() {
    let t0: usize = kani::any();
    kani::assume(t0 == 1 || t0 == 2 || t0 == 3);
    let t2: usize = kani::any();
    kani::assume(t2 == 0 || t2 == 1 || t2 == 3);
    check([B::Bra(t0), any_filler(), B::Skip(t2)], 3);
}
