#!/usr/bin/env python3
"""Extraction-to-Kani for group K-LINEGEN (DESIGN.md 3.2 "Extraction to Kani", 6 C13 / C12).

Cuts VERBATIM from $GIMLI_REPO/src/write/line.rs (default /repo) the private opcode-selection code of the line-program
writer and writes it to kani/src/gen/linegen_items.rs, which the hand-written harness module kani/src/linegen.rs `include!`s.
Run on every check (the output is gitignored, never committed):

    python3 /verif/kani/gen_linegen.py [--out FILE] [--quiet]

exit 0 = written; exit 2 = a lost anchor / an item that no longer has the expected shape (never an alarm).

Rules applied (and nothing else; every application is counted in the header of the generated file):
  R-DOC     comments and doc comments stripped (lib.strip_comments)
  R-CFG     #[cfg(..)] evaluated for the feature set of the harness crate (lib.apply_cfg; none inside the items cut here)
  R-DROP    `impl LineProgram` reduced to the methods under test (KEEP below); `impl LineInstruction` (only `write`, needs the
            crate-private section writer) not extracted
  R-FIELDS  `struct LineProgram` projected to the fields that the kept methods mention as `self.<field>`: computed here, every
            dropped field is listed in the header.  If a kept method starts to use a dropped field, the field is kept
            automatically and the harness crate stops compiling (driver: exit 2), it can never be silently ignored.
No contracts are spliced, no assertion is rewritten: the debug_assert!s of the real text stay and are checked by Kani.
No stand-in type had to be substituted IN THE TEXT: every type mentioned by the kept items is either cut here too or public
in gimli (`gimli::{Encoding, LineEncoding}`, `gimli::write::Address`), imported by linegen.rs.  The name `Vec` (field
`instructions: Vec<LineInstruction>`) is resolved by linegen.rs to its observer stand-in `sink::Vec` (push only; documented there).

Seeded-defect validation (not part of any check): copy /repo to a scratch directory, change the text there, run
`GIMLI_REPO=<scratch> python3 kani/gen_linegen.py --out <private crate>/src/gen/linegen_items.rs` and point the private
crate's `gimli = { path = .. }` at the scratch tree.
"""
import hashlib
import os
import sys

sys.path.insert(0, os.path.join(os.path.dirname(os.path.abspath(__file__)), '..', 'vx'))
sys.path.insert(0, '/verif/vx')
from lib import *  # noqa: E402,F401,F403
import lib  # noqa: E402

REL = 'write/line.rs'
KEEP = ['begin_sequence', 'set_address', 'end_sequence', 'generate_row', 'op_advance']
DEFAULT_OUT = os.path.join(os.path.dirname(os.path.abspath(__file__)), 'src', 'gen', 'linegen_items.rs')


def struct_fields(text):
    """[(name, verbatim `[pub ]name: Type,` text)] of a braced struct item"""
    b = body_open(text, re.search(r'\bstruct\b', text).start())
    e = match_close(text, b)
    out = []
    parts, cur, depth = [], '', 0
    for c in text[b + 1:e]:          # split at top-level commas; generic arguments `<..>` nest too
        if c in '([{<':
            depth += 1
        elif c in ')]}>':
            depth -= 1
        if c == ',' and depth == 0:
            parts.append(cur)
            cur = ''
        else:
            cur += c
    parts.append(cur)
    for part in parts:
        p = part.strip()
        if not p:
            continue
        m = re.match(r'(?:pub(?:\([a-z]+\))?\s+)?(\w+)\s*:', p)
        if not m:
            raise Lost(f'{REL}: struct LineProgram: field `{p[:40]}` not understood')
        ms = re.findall(r'(?m)^[ \t]*' + re.escape(p) + ',', text)     # the field with its indentation
        if len(ms) != 1 or text.count(ms[0]) != 1:
            raise Lost(f'{REL}: struct LineProgram: field text `{p[:40]}` is not unique')
        out.append((m.group(1), ms[0]))
    return out


def build(ctx):
    src = Source(REL, ctx)
    items = []

    opcode_base = src.item(r'^const OPCODE_BASE: u8\b', label='OPCODE_BASE')
    items.append(opcode_base)

    imp = src.item(r'^impl LineProgram \{', label='impl LineProgram')
    imp.keep_only(KEEP)

    st = src.item(r'^pub struct LineProgram \{', label='LineProgram')
    dropped_fields = []
    for name, ftext in struct_fields(st.text):
        if not re.search(r'\bself\s*\.\s*%s\b' % name, imp.text):
            st.custom('R-FIELDS', ftext, '')
            dropped_fields.append(ftext.strip().rstrip(','))
    kept_fields = [n for n, _ in struct_fields(st.text)]
    for need in ['line_encoding', 'prev_row', 'row', 'instructions']:
        if need not in kept_fields:
            raise Lost(f'{REL}: struct LineProgram no longer has the field `{need}` used by the harnesses')
    items += [st, imp]

    items.append(src.item(r'^pub struct LineRow \{', label='LineRow'))
    items.append(src.item(r'^impl LineRow \{', label='impl LineRow'))
    items.append(src.item(r'^enum LineInstruction \{', label='LineInstruction'))
    items.append(src.item(r'^mod id \{', label='mod id (FileId)'))
    reexp = re.search(r'^pub use self::id::\*;$', src.text, re.M)
    if not reexp:
        raise Lost(f'{REL}: `pub use self::id::*;` not found')

    # provenance: whatever is not a logged removal is a verbatim substring of the (comment-stripped, cfg-evaluated) source
    for it in items:
        if it.text == it.orig and it.text not in src.text:
            raise Lost(f'{REL}: provenance check failed for {it.label}')
    return src, items, reexp.group(0), dropped_fields, kept_fields


def main():
    out = DEFAULT_OUT
    quiet = '--quiet' in sys.argv
    if '--out' in sys.argv:
        out = sys.argv[sys.argv.index('--out') + 1]
    ctx = Ctx('kani-linegen')
    src, items, reexp, dropped_fields, kept_fields = build(ctx)
    raw = open(lib.SRC + REL, 'rb').read()
    hdr = []
    hdr.append('// GENERATED by /verif/kani/gen_linegen.py on every run - DO NOT EDIT, DO NOT COMMIT.')
    hdr.append(f'// source: {lib.SRC}{REL}  sha256 {hashlib.sha256(raw).hexdigest()}')
    hdr.append('// items (verbatim text of the source after R-DOC / R-CFG):')
    for it in items:
        hdr.append(f'//   {it.label}' + ('' if it.text == it.orig else '   [reduced, see below]'))
    hdr.append(f'//   {reexp}')
    hdr.append('// R-DROP  impl LineProgram: kept ' + ', '.join(KEEP) + '; dropped:')
    for d in ctx.dropped:
        hdr.append('//   ' + d)
    hdr.append('//   impl LineInstruction (write) not extracted')
    hdr.append('// R-FIELDS struct LineProgram: kept ' + ', '.join(kept_fields) + '; dropped (no kept method mentions self.<field>):')
    for d in dropped_fields:
        hdr.append('//   ' + ' '.join(d.split()))
    hdr.append('// stand-ins: none in this text; the NAME `Vec` in `instructions: Vec<LineInstruction>` is resolved by the including module')
    hdr.append('//   (kani/src/linegen.rs, `use self::sink::Vec`) to an observer with `push` only - see the comment there')
    hdr.append('// rule counts: ' + ', '.join(f'{k}={v}' for k, v in sorted(ctx.rules.items())) + ', R-DOC=1 (whole file)')
    body = '\n\n'.join(it.text.strip('\n') for it in items) + '\n' + reexp + '\n'
    body = re.sub(r'\n([ \t]*\n){2,}', '\n\n', body)      # runs of blank lines left by R-DOC / R-DROP collapsed (whitespace only)
    os.makedirs(os.path.dirname(out), exist_ok=True)
    tmp = out + '.tmp%d' % os.getpid()
    with open(tmp, 'w') as f:
        f.write('\n'.join(hdr) + '\n\n' + body)
    os.replace(tmp, out)
    if not quiet:
        print(f'gen_linegen: wrote {out} ({len(items)} items, {len(dropped_fields)} fields dropped, '
              f'{len(ctx.dropped)} methods dropped) from {lib.SRC}{REL}')


if __name__ == '__main__':
    try:
        main()
    except Lost as e:
        print('gen_linegen: LOST ' + str(e), file=sys.stderr)
        sys.exit(2)
    except Exception as e:  # any tool problem is exit 2, never an alarm
        print('gen_linegen: tool problem: %r' % (e,), file=sys.stderr)
        sys.exit(2)
