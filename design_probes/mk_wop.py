from ex import *
from rw import rewrite_asserts
import re
R='/repo/src/'
_,ops=consts(R+'constants.rs','DwOp','DW_OP_')
wo=R+'write/op.rs'; lb=R+'leb128.rs'
items=[
 get(wo, r'^enum Operation \{'),
 get(wo, r'^impl Operation \{'),
 get(wo, r'^pub struct Expression \{'),
 'impl Expression {\n'+get(wo, r'    pub\(crate\) fn size\(', r'^impl Expression \{')+'''
    #[verifier::external_body]
    pub(crate) fn write<W: Writer>(&self, w: &mut W, refs: Option<&mut Vec<DebugInfoFixup>>, encoding: Encoding, unit_offsets: Option<&UnitOffsets>) -> Result<()> { unimplemented!() }
}''',
 get(lb, r'    pub fn uleb128_size', r'^pub mod write'),
 get(lb, r'    pub fn sleb128_size', r'^pub mod write'),
]
body='\n\n'.join(items)
body=re.sub(r'#\[derive\([^\]]*\)\]', '', body)
body=body.replace('#[doc(hidden)]','').replace('#[inline]','').replace('#[inline(always)]','')
body=rewrite_asserts(body)
pre=open('prelude3.rs').read()
pre=pre.replace('/*CONSTS*/','\n    '.join(['#[derive(Clone, Copy, PartialEq, Eq, Debug)]\n    pub struct DwOp(pub u8);']+ops))
open('wop_v.rs','w').write(pre.replace('/*BODY*/',body))
