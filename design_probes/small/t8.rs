use vstd::prelude::*;
verus! {
#[derive(Clone, Copy, PartialEq, Eq)]
pub struct Wrapping<T>(pub T);

impl vstd::std_specs::ops::MulSpecImpl<Wrapping<u64>> for Wrapping<u64> {
    open spec fn obeys_mul_spec() -> bool { true }
    open spec fn mul_req(self, rhs: Wrapping<u64>) -> bool { true }
    open spec fn mul_spec(self, rhs: Wrapping<u64>) -> Wrapping<u64> { Wrapping(((self.0 as int * rhs.0 as int) % 0x1_0000_0000_0000_0000int) as u64) }
}
impl core::ops::Mul for Wrapping<u64> {
    type Output = Wrapping<u64>;
    fn mul(self, rhs: Wrapping<u64>) -> (r: Wrapping<u64>)
    {
        Wrapping(self.0.wrapping_mul(rhs.0))
    }
}
fn f(a: u64, b: u64) -> (r: u64)
  ensures r == ((a as int * b as int) % 0x1_0000_0000_0000_0000int) as u64
{
    let x = Wrapping(a) * Wrapping(b);
    x.0
}
}
fn main(){}
