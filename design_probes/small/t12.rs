use vstd::prelude::*;
verus! {
pub struct Row { pub end: u64, pub cfa: u64 }
pub struct Ctx { pub row: Row }
impl Ctx {
    #[verifier::external_body]
    fn row_mut(&mut self) -> &mut Row { &mut self.row }
}
fn f(c: &mut Ctx) {
    c.row_mut().end = 5;
}
}
fn main(){}
