use vstd::prelude::*;
use std::collections::HashMap;
verus! {

#[derive(PartialEq, Eq, Hash, Clone, Copy)]
pub struct Off(pub usize);

pub struct FilterDependencies {
    edges: HashMap<usize, Vec<usize>>,
    required: Vec<usize>,
}


        fn get_reachable(mut this: FilterDependencies) -> (r: Vec<usize>)
        {
            let mut reachable = Vec::new();
            let mut queue = vec![this.required];
            while let Some(entries) = queue.pop()
              decreases 0nat
            {
                for entry in entries {
                    if let Some(deps) = this.edges.remove(&entry) {
                        reachable.push(entry);
                        queue.push(deps);
                    }
                }
            }
            reachable
        }
}
fn main(){}
