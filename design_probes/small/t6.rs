
use vstd::prelude::*;
verus! {
pub mod constants {
    #[derive(Clone, Copy, PartialEq, Eq, Debug)]
    pub struct DwOp(pub u8);
    pub const DW_OP_addr: DwOp = DwOp(0x03);
    pub const DW_OP_deref: DwOp = DwOp(0x06);
    pub const DW_OP_const1u: DwOp = DwOp(0x08);
    pub const DW_OP_const1s: DwOp = DwOp(0x09);
    pub const DW_OP_const2u: DwOp = DwOp(0x0a);
    pub const DW_OP_const2s: DwOp = DwOp(0x0b);
    pub const DW_OP_const4u: DwOp = DwOp(0x0c);
    pub const DW_OP_const4s: DwOp = DwOp(0x0d);
    pub const DW_OP_const8u: DwOp = DwOp(0x0e);
    pub const DW_OP_const8s: DwOp = DwOp(0x0f);
    pub const DW_OP_constu: DwOp = DwOp(0x10);
    pub const DW_OP_consts: DwOp = DwOp(0x11);
    pub const DW_OP_dup: DwOp = DwOp(0x12);
    pub const DW_OP_drop: DwOp = DwOp(0x13);
    pub const DW_OP_over: DwOp = DwOp(0x14);
    pub const DW_OP_pick: DwOp = DwOp(0x15);
    pub const DW_OP_swap: DwOp = DwOp(0x16);
    pub const DW_OP_rot: DwOp = DwOp(0x17);
    pub const DW_OP_xderef: DwOp = DwOp(0x18);
    pub const DW_OP_abs: DwOp = DwOp(0x19);
    pub const DW_OP_and: DwOp = DwOp(0x1a);
    pub const DW_OP_div: DwOp = DwOp(0x1b);
    pub const DW_OP_minus: DwOp = DwOp(0x1c);
    pub const DW_OP_mod: DwOp = DwOp(0x1d);
    pub const DW_OP_mul: DwOp = DwOp(0x1e);
    pub const DW_OP_neg: DwOp = DwOp(0x1f);
    pub const DW_OP_not: DwOp = DwOp(0x20);
    pub const DW_OP_or: DwOp = DwOp(0x21);
    pub const DW_OP_plus: DwOp = DwOp(0x22);
    pub const DW_OP_plus_uconst: DwOp = DwOp(0x23);
    pub const DW_OP_shl: DwOp = DwOp(0x24);
    pub const DW_OP_shr: DwOp = DwOp(0x25);
    pub const DW_OP_shra: DwOp = DwOp(0x26);
    pub const DW_OP_xor: DwOp = DwOp(0x27);
    pub const DW_OP_bra: DwOp = DwOp(0x28);
    pub const DW_OP_eq: DwOp = DwOp(0x29);
    pub const DW_OP_ge: DwOp = DwOp(0x2a);
    pub const DW_OP_gt: DwOp = DwOp(0x2b);
    pub const DW_OP_le: DwOp = DwOp(0x2c);
    pub const DW_OP_lt: DwOp = DwOp(0x2d);
    pub const DW_OP_ne: DwOp = DwOp(0x2e);
    pub const DW_OP_skip: DwOp = DwOp(0x2f);
    pub const DW_OP_lit0: DwOp = DwOp(0x30);
    pub const DW_OP_lit1: DwOp = DwOp(0x31);
    pub const DW_OP_lit2: DwOp = DwOp(0x32);
    pub const DW_OP_lit3: DwOp = DwOp(0x33);
    pub const DW_OP_lit4: DwOp = DwOp(0x34);
    pub const DW_OP_lit5: DwOp = DwOp(0x35);
    pub const DW_OP_lit6: DwOp = DwOp(0x36);
    pub const DW_OP_lit7: DwOp = DwOp(0x37);
    pub const DW_OP_lit8: DwOp = DwOp(0x38);
    pub const DW_OP_lit9: DwOp = DwOp(0x39);
    pub const DW_OP_lit10: DwOp = DwOp(0x3a);
    pub const DW_OP_lit11: DwOp = DwOp(0x3b);
    pub const DW_OP_lit12: DwOp = DwOp(0x3c);
    pub const DW_OP_lit13: DwOp = DwOp(0x3d);
    pub const DW_OP_lit14: DwOp = DwOp(0x3e);
    pub const DW_OP_lit15: DwOp = DwOp(0x3f);
    pub const DW_OP_lit16: DwOp = DwOp(0x40);
    pub const DW_OP_lit17: DwOp = DwOp(0x41);
    pub const DW_OP_lit18: DwOp = DwOp(0x42);
    pub const DW_OP_lit19: DwOp = DwOp(0x43);
    pub const DW_OP_lit20: DwOp = DwOp(0x44);
    pub const DW_OP_lit21: DwOp = DwOp(0x45);
    pub const DW_OP_lit22: DwOp = DwOp(0x46);
    pub const DW_OP_lit23: DwOp = DwOp(0x47);
    pub const DW_OP_lit24: DwOp = DwOp(0x48);
    pub const DW_OP_lit25: DwOp = DwOp(0x49);
    pub const DW_OP_lit26: DwOp = DwOp(0x4a);
    pub const DW_OP_lit27: DwOp = DwOp(0x4b);
    pub const DW_OP_lit28: DwOp = DwOp(0x4c);
    pub const DW_OP_lit29: DwOp = DwOp(0x4d);
    pub const DW_OP_lit30: DwOp = DwOp(0x4e);
    pub const DW_OP_lit31: DwOp = DwOp(0x4f);
    pub const DW_OP_reg0: DwOp = DwOp(0x50);
    pub const DW_OP_reg1: DwOp = DwOp(0x51);
    pub const DW_OP_reg2: DwOp = DwOp(0x52);
    pub const DW_OP_reg3: DwOp = DwOp(0x53);
    pub const DW_OP_reg4: DwOp = DwOp(0x54);
    pub const DW_OP_reg5: DwOp = DwOp(0x55);
    pub const DW_OP_reg6: DwOp = DwOp(0x56);
    pub const DW_OP_reg7: DwOp = DwOp(0x57);
    pub const DW_OP_reg8: DwOp = DwOp(0x58);
    pub const DW_OP_reg9: DwOp = DwOp(0x59);
    pub const DW_OP_reg10: DwOp = DwOp(0x5a);
    pub const DW_OP_reg11: DwOp = DwOp(0x5b);
    pub const DW_OP_reg12: DwOp = DwOp(0x5c);
    pub const DW_OP_reg13: DwOp = DwOp(0x5d);
    pub const DW_OP_reg14: DwOp = DwOp(0x5e);
    pub const DW_OP_reg15: DwOp = DwOp(0x5f);
    pub const DW_OP_reg16: DwOp = DwOp(0x60);
    pub const DW_OP_reg17: DwOp = DwOp(0x61);
    pub const DW_OP_reg18: DwOp = DwOp(0x62);
    pub const DW_OP_reg19: DwOp = DwOp(0x63);
    pub const DW_OP_reg20: DwOp = DwOp(0x64);
    pub const DW_OP_reg21: DwOp = DwOp(0x65);
    pub const DW_OP_reg22: DwOp = DwOp(0x66);
    pub const DW_OP_reg23: DwOp = DwOp(0x67);
    pub const DW_OP_reg24: DwOp = DwOp(0x68);
    pub const DW_OP_reg25: DwOp = DwOp(0x69);
    pub const DW_OP_reg26: DwOp = DwOp(0x6a);
    pub const DW_OP_reg27: DwOp = DwOp(0x6b);
    pub const DW_OP_reg28: DwOp = DwOp(0x6c);
    pub const DW_OP_reg29: DwOp = DwOp(0x6d);
    pub const DW_OP_reg30: DwOp = DwOp(0x6e);
    pub const DW_OP_reg31: DwOp = DwOp(0x6f);
    pub const DW_OP_breg0: DwOp = DwOp(0x70);
    pub const DW_OP_breg1: DwOp = DwOp(0x71);
    pub const DW_OP_breg2: DwOp = DwOp(0x72);
    pub const DW_OP_breg3: DwOp = DwOp(0x73);
    pub const DW_OP_breg4: DwOp = DwOp(0x74);
    pub const DW_OP_breg5: DwOp = DwOp(0x75);
    pub const DW_OP_breg6: DwOp = DwOp(0x76);
    pub const DW_OP_breg7: DwOp = DwOp(0x77);
    pub const DW_OP_breg8: DwOp = DwOp(0x78);
    pub const DW_OP_breg9: DwOp = DwOp(0x79);
    pub const DW_OP_breg10: DwOp = DwOp(0x7a);
    pub const DW_OP_breg11: DwOp = DwOp(0x7b);
    pub const DW_OP_breg12: DwOp = DwOp(0x7c);
    pub const DW_OP_breg13: DwOp = DwOp(0x7d);
    pub const DW_OP_breg14: DwOp = DwOp(0x7e);
    pub const DW_OP_breg15: DwOp = DwOp(0x7f);
    pub const DW_OP_breg16: DwOp = DwOp(0x80);
    pub const DW_OP_breg17: DwOp = DwOp(0x81);
    pub const DW_OP_breg18: DwOp = DwOp(0x82);
    pub const DW_OP_breg19: DwOp = DwOp(0x83);
    pub const DW_OP_breg20: DwOp = DwOp(0x84);
    pub const DW_OP_breg21: DwOp = DwOp(0x85);
    pub const DW_OP_breg22: DwOp = DwOp(0x86);
    pub const DW_OP_breg23: DwOp = DwOp(0x87);
    pub const DW_OP_breg24: DwOp = DwOp(0x88);
    pub const DW_OP_breg25: DwOp = DwOp(0x89);
    pub const DW_OP_breg26: DwOp = DwOp(0x8a);
    pub const DW_OP_breg27: DwOp = DwOp(0x8b);
    pub const DW_OP_breg28: DwOp = DwOp(0x8c);
    pub const DW_OP_breg29: DwOp = DwOp(0x8d);
    pub const DW_OP_breg30: DwOp = DwOp(0x8e);
    pub const DW_OP_breg31: DwOp = DwOp(0x8f);
    pub const DW_OP_regx: DwOp = DwOp(0x90);
    pub const DW_OP_fbreg: DwOp = DwOp(0x91);
    pub const DW_OP_bregx: DwOp = DwOp(0x92);
    pub const DW_OP_piece: DwOp = DwOp(0x93);
    pub const DW_OP_deref_size: DwOp = DwOp(0x94);
    pub const DW_OP_xderef_size: DwOp = DwOp(0x95);
    pub const DW_OP_nop: DwOp = DwOp(0x96);
    pub const DW_OP_push_object_address: DwOp = DwOp(0x97);
    pub const DW_OP_call2: DwOp = DwOp(0x98);
    pub const DW_OP_call4: DwOp = DwOp(0x99);
    pub const DW_OP_call_ref: DwOp = DwOp(0x9a);
    pub const DW_OP_form_tls_address: DwOp = DwOp(0x9b);
    pub const DW_OP_call_frame_cfa: DwOp = DwOp(0x9c);
    pub const DW_OP_bit_piece: DwOp = DwOp(0x9d);
    pub const DW_OP_implicit_value: DwOp = DwOp(0x9e);
    pub const DW_OP_stack_value: DwOp = DwOp(0x9f);
    pub const DW_OP_implicit_pointer: DwOp = DwOp(0xa0);
    pub const DW_OP_addrx: DwOp = DwOp(0xa1);
    pub const DW_OP_constx: DwOp = DwOp(0xa2);
    pub const DW_OP_entry_value: DwOp = DwOp(0xa3);
    pub const DW_OP_const_type: DwOp = DwOp(0xa4);
    pub const DW_OP_regval_type: DwOp = DwOp(0xa5);
    pub const DW_OP_deref_type: DwOp = DwOp(0xa6);
    pub const DW_OP_xderef_type: DwOp = DwOp(0xa7);
    pub const DW_OP_convert: DwOp = DwOp(0xa8);
    pub const DW_OP_reinterpret: DwOp = DwOp(0xa9);
    pub const DW_OP_GNU_push_tls_address: DwOp = DwOp(0xe0);
    pub const DW_OP_GNU_uninit: DwOp = DwOp(0xf0);
    pub const DW_OP_GNU_encoded_addr: DwOp = DwOp(0xf1);
    pub const DW_OP_GNU_implicit_pointer: DwOp = DwOp(0xf2);
    pub const DW_OP_GNU_entry_value: DwOp = DwOp(0xf3);
    pub const DW_OP_GNU_const_type: DwOp = DwOp(0xf4);
    pub const DW_OP_GNU_regval_type: DwOp = DwOp(0xf5);
    pub const DW_OP_GNU_deref_type: DwOp = DwOp(0xf6);
    pub const DW_OP_GNU_convert: DwOp = DwOp(0xf7);
    pub const DW_OP_GNU_reinterpret: DwOp = DwOp(0xf9);
    pub const DW_OP_GNU_parameter_ref: DwOp = DwOp(0xfa);
    pub const DW_OP_GNU_addr_index: DwOp = DwOp(0xfb);
    pub const DW_OP_GNU_const_index: DwOp = DwOp(0xfc);
    pub const DW_OP_GNU_variable_value: DwOp = DwOp(0xfd);
    pub const DW_OP_WASM_location: DwOp = DwOp(0xed);
}
#[derive(Clone, Copy, Debug)]
pub enum Error { UnexpectedEof(u64), BadUnsignedLeb128, BadSignedLeb128, UnsupportedOffset, UnsupportedAddressSize(u8), InvalidExpression(constants::DwOp), UnsupportedRegister(u64) }
pub type Result<T> = core::result::Result<T, Error>;
#[derive(Clone, Copy, PartialEq, Eq)]
pub enum Format { Dwarf64 = 8, Dwarf32 = 4 }
#[derive(Clone, Copy, PartialEq, Eq)]
pub struct Encoding { pub address_size: u8, pub format: Format, pub version: u16 }
#[derive(Clone, Copy, PartialEq, Eq)]
pub struct Register(pub u16);
impl Register {
    pub fn from_u64(x: u64) -> (r: Result<Register>) { if x > 0xffff { Err(Error::UnsupportedRegister(x)) } else { Ok(Register(x as u16)) } }
}
#[derive(Clone, Copy, PartialEq, Eq)]
pub struct UnitOffset<T = usize>(pub T);
#[derive(Clone, Copy, PartialEq, Eq)]
pub struct DebugInfoOffset<T = usize>(pub T);
#[derive(Clone, Copy, PartialEq, Eq)]
pub struct DebugAddrIndex<T = usize>(pub T);


pub assume_specification<T, E, U, F: FnOnce(T) -> core::result::Result<U, E>>[core::result::Result::<T,E>::and_then](r: core::result::Result<T,E>, op: F) -> (res: core::result::Result<U,E>)
  requires r is Ok ==> op.requires((r->Ok_0,)),
  ensures match r { Ok(v) => op.ensures((v,), res), Err(e) => res == Err::<U,E>(e) };

pub trait ReaderOffset: Sized + Copy {
    fn from_u8(offset: u8) -> Self;
    fn from_u16(offset: u16) -> Self;
    fn from_u32(offset: u32) -> Self;
    fn from_u64(offset: u64) -> Result<Self>;
}

pub trait Reader: Sized {
    type Offset: ReaderOffset;
    spec fn bytes(&self) -> Seq<u8>;
    fn read_u8(&mut self) -> (r: Result<u8>) ensures final(self).bytes().len() <= old(self).bytes().len();
    fn read_i8(&mut self) -> (r: Result<i8>) ensures final(self).bytes().len() <= old(self).bytes().len();
    fn read_u16(&mut self) -> (r: Result<u16>) ensures final(self).bytes().len() <= old(self).bytes().len();
    fn read_i16(&mut self) -> (r: Result<i16>) ensures final(self).bytes().len() <= old(self).bytes().len();
    fn read_u32(&mut self) -> (r: Result<u32>) ensures final(self).bytes().len() <= old(self).bytes().len();
    fn read_i32(&mut self) -> (r: Result<i32>) ensures final(self).bytes().len() <= old(self).bytes().len();
    fn read_u64(&mut self) -> (r: Result<u64>) ensures final(self).bytes().len() <= old(self).bytes().len();
    fn read_i64(&mut self) -> (r: Result<i64>) ensures final(self).bytes().len() <= old(self).bytes().len();
    fn read_uleb128(&mut self) -> (r: Result<u64>) ensures final(self).bytes().len() <= old(self).bytes().len();
    fn read_uleb128_u32(&mut self) -> (r: Result<u32>) ensures final(self).bytes().len() <= old(self).bytes().len();
    fn read_sleb128(&mut self) -> (r: Result<i64>) ensures final(self).bytes().len() <= old(self).bytes().len();
    fn read_address(&mut self, address_size: u8) -> (r: Result<u64>) ensures final(self).bytes().len() <= old(self).bytes().len();
    fn read_offset(&mut self, format: Format) -> (r: Result<Self::Offset>) ensures final(self).bytes().len() <= old(self).bytes().len();
    fn split(&mut self, len: Self::Offset) -> (r: Result<Self>) ensures final(self).bytes().len() <= old(self).bytes().len();
}

pub enum DieReference<T = usize> {
    UnitRef(UnitOffset<T>),
    DebugInfoRef(DebugInfoOffset<T>),
}

#[verifier::reject_recursive_types(R)]
#[verifier::reject_recursive_types(Offset)]
pub enum Operation<R, Offset = <R as Reader>::Offset>
where
    R: Reader<Offset = Offset>,
    Offset: ReaderOffset,
{
    Deref {
        base_type: UnitOffset<Offset>,
        size: u8,
        space: bool,
    },
    Drop,
    Pick {
        index: u8,
    },
    Swap,
    Rot,
    Abs,
    And,
    Div,
    Minus,
    Mod,
    Mul,
    Neg,
    Not,
    Or,
    Plus,
    PlusConstant {
        value: u64,
    },
    Shl,
    Shr,
    Shra,
    Xor,
    Bra {
        target: i16,
    },
    Eq,
    Ge,
    Gt,
    Le,
    Lt,
    Ne,
    Skip {
        target: i16,
    },
    UnsignedConstant {
        value: u64,
    },
    SignedConstant {
        value: i64,
    },
    Register {
        register: Register,
    },
    RegisterOffset {
        register: Register,
        offset: i64,
        base_type: UnitOffset<Offset>,
    },
    FrameOffset {
        offset: i64,
    },
    Nop,
    PushObjectAddress,
    Call {
        offset: DieReference<Offset>,
    },
    VariableValue {
        offset: DebugInfoOffset<Offset>,
    },
    TLS,
    CallFrameCFA,
    Piece {
        size_in_bits: u64,
        bit_offset: Option<u64>,
    },
    ImplicitValue {
        data: R,
    },
    StackValue,
    ImplicitPointer {
        value: DebugInfoOffset<Offset>,
        byte_offset: i64,
    },
    EntryValue {
        expression: R,
    },
    ParameterRef {
        offset: UnitOffset<Offset>,
    },
    Address {
        address: u64,
    },
    AddressIndex {
        index: DebugAddrIndex<Offset>,
    },
    ConstantIndex {
        index: DebugAddrIndex<Offset>,
    },
    TypedLiteral {
        base_type: UnitOffset<Offset>,
        value: R,
    },
    Convert {
        base_type: UnitOffset<Offset>,
    },
    Reinterpret {
        base_type: UnitOffset<Offset>,
    },
    Uninitialized,
    WasmLocal {
        index: u32,
    },
    WasmGlobal {
        index: u32,
    },
    WasmStack {
        index: u32,
    },
}
fn generic_type<O: ReaderOffset>() -> UnitOffset<O> {
    UnitOffset(O::from_u64(0).unwrap())
}
impl<R, Offset> Operation<R, Offset>
where
    R: Reader<Offset = Offset>,
    Offset: ReaderOffset,
{
    pub fn parse(bytes: &mut R, encoding: Encoding) -> Result<Operation<R, Offset>> {
        let opcode = bytes.read_u8()?;
        let name = constants::DwOp(opcode);
        match name {
            constants::DW_OP_addr => {
                let address = bytes.read_address(encoding.address_size)?;
                Ok(Operation::Address { address })
            }
            constants::DW_OP_deref => Ok(Operation::Deref {
                base_type: generic_type(),
                size: encoding.address_size,
                space: false,
            }),
            constants::DW_OP_const1u => {
                let value = bytes.read_u8()?;
                Ok(Operation::UnsignedConstant {
                    value: u64::from(value),
                })
            }
            constants::DW_OP_const1s => {
                let value = bytes.read_i8()?;
                Ok(Operation::SignedConstant {
                    value: i64::from(value),
                })
            }
            constants::DW_OP_const2u => {
                let value = bytes.read_u16()?;
                Ok(Operation::UnsignedConstant {
                    value: u64::from(value),
                })
            }
            constants::DW_OP_const2s => {
                let value = bytes.read_i16()?;
                Ok(Operation::SignedConstant {
                    value: i64::from(value),
                })
            }
            constants::DW_OP_const4u => {
                let value = bytes.read_u32()?;
                Ok(Operation::UnsignedConstant {
                    value: u64::from(value),
                })
            }
            constants::DW_OP_const4s => {
                let value = bytes.read_i32()?;
                Ok(Operation::SignedConstant {
                    value: i64::from(value),
                })
            }
            constants::DW_OP_const8u => {
                let value = bytes.read_u64()?;
                Ok(Operation::UnsignedConstant { value })
            }
            constants::DW_OP_const8s => {
                let value = bytes.read_i64()?;
                Ok(Operation::SignedConstant { value })
            }
            constants::DW_OP_constu => {
                let value = bytes.read_uleb128()?;
                Ok(Operation::UnsignedConstant { value })
            }
            constants::DW_OP_consts => {
                let value = bytes.read_sleb128()?;
                Ok(Operation::SignedConstant { value })
            }
            constants::DW_OP_dup => Ok(Operation::Pick { index: 0 }),
            constants::DW_OP_drop => Ok(Operation::Drop),
            constants::DW_OP_over => Ok(Operation::Pick { index: 1 }),
            constants::DW_OP_pick => {
                let value = bytes.read_u8()?;
                Ok(Operation::Pick { index: value })
            }
            constants::DW_OP_swap => Ok(Operation::Swap),
            constants::DW_OP_rot => Ok(Operation::Rot),
            constants::DW_OP_xderef => Ok(Operation::Deref {
                base_type: generic_type(),
                size: encoding.address_size,
                space: true,
            }),
            constants::DW_OP_abs => Ok(Operation::Abs),
            constants::DW_OP_and => Ok(Operation::And),
            constants::DW_OP_div => Ok(Operation::Div),
            constants::DW_OP_minus => Ok(Operation::Minus),
            constants::DW_OP_mod => Ok(Operation::Mod),
            constants::DW_OP_mul => Ok(Operation::Mul),
            constants::DW_OP_neg => Ok(Operation::Neg),
            constants::DW_OP_not => Ok(Operation::Not),
            constants::DW_OP_or => Ok(Operation::Or),
            constants::DW_OP_plus => Ok(Operation::Plus),
            constants::DW_OP_plus_uconst => {
                let value = bytes.read_uleb128()?;
                Ok(Operation::PlusConstant { value })
            }
            constants::DW_OP_shl => Ok(Operation::Shl),
            constants::DW_OP_shr => Ok(Operation::Shr),
            constants::DW_OP_shra => Ok(Operation::Shra),
            constants::DW_OP_xor => Ok(Operation::Xor),
            constants::DW_OP_bra => {
                let target = bytes.read_i16()?;
                Ok(Operation::Bra { target })
            }
            constants::DW_OP_eq => Ok(Operation::Eq),
            constants::DW_OP_ge => Ok(Operation::Ge),
            constants::DW_OP_gt => Ok(Operation::Gt),
            constants::DW_OP_le => Ok(Operation::Le),
            constants::DW_OP_lt => Ok(Operation::Lt),
            constants::DW_OP_ne => Ok(Operation::Ne),
            constants::DW_OP_skip => {
                let target = bytes.read_i16()?;
                Ok(Operation::Skip { target })
            }
            constants::DW_OP_lit0
            | constants::DW_OP_lit1
            | constants::DW_OP_lit2
            | constants::DW_OP_lit3
            | constants::DW_OP_lit4
            | constants::DW_OP_lit5
            | constants::DW_OP_lit6
            | constants::DW_OP_lit7
            | constants::DW_OP_lit8
            | constants::DW_OP_lit9
            | constants::DW_OP_lit10
            | constants::DW_OP_lit11
            | constants::DW_OP_lit12
            | constants::DW_OP_lit13
            | constants::DW_OP_lit14
            | constants::DW_OP_lit15
            | constants::DW_OP_lit16
            | constants::DW_OP_lit17
            | constants::DW_OP_lit18
            | constants::DW_OP_lit19
            | constants::DW_OP_lit20
            | constants::DW_OP_lit21
            | constants::DW_OP_lit22
            | constants::DW_OP_lit23
            | constants::DW_OP_lit24
            | constants::DW_OP_lit25
            | constants::DW_OP_lit26
            | constants::DW_OP_lit27
            | constants::DW_OP_lit28
            | constants::DW_OP_lit29
            | constants::DW_OP_lit30
            | constants::DW_OP_lit31 => Ok(Operation::UnsignedConstant {
                value: (opcode - constants::DW_OP_lit0.0).into(),
            }),
            constants::DW_OP_reg0
            | constants::DW_OP_reg1
            | constants::DW_OP_reg2
            | constants::DW_OP_reg3
            | constants::DW_OP_reg4
            | constants::DW_OP_reg5
            | constants::DW_OP_reg6
            | constants::DW_OP_reg7
            | constants::DW_OP_reg8
            | constants::DW_OP_reg9
            | constants::DW_OP_reg10
            | constants::DW_OP_reg11
            | constants::DW_OP_reg12
            | constants::DW_OP_reg13
            | constants::DW_OP_reg14
            | constants::DW_OP_reg15
            | constants::DW_OP_reg16
            | constants::DW_OP_reg17
            | constants::DW_OP_reg18
            | constants::DW_OP_reg19
            | constants::DW_OP_reg20
            | constants::DW_OP_reg21
            | constants::DW_OP_reg22
            | constants::DW_OP_reg23
            | constants::DW_OP_reg24
            | constants::DW_OP_reg25
            | constants::DW_OP_reg26
            | constants::DW_OP_reg27
            | constants::DW_OP_reg28
            | constants::DW_OP_reg29
            | constants::DW_OP_reg30
            | constants::DW_OP_reg31 => Ok(Operation::Register {
                register: Register((opcode - constants::DW_OP_reg0.0).into()),
            }),
            constants::DW_OP_breg0
            | constants::DW_OP_breg1
            | constants::DW_OP_breg2
            | constants::DW_OP_breg3
            | constants::DW_OP_breg4
            | constants::DW_OP_breg5
            | constants::DW_OP_breg6
            | constants::DW_OP_breg7
            | constants::DW_OP_breg8
            | constants::DW_OP_breg9
            | constants::DW_OP_breg10
            | constants::DW_OP_breg11
            | constants::DW_OP_breg12
            | constants::DW_OP_breg13
            | constants::DW_OP_breg14
            | constants::DW_OP_breg15
            | constants::DW_OP_breg16
            | constants::DW_OP_breg17
            | constants::DW_OP_breg18
            | constants::DW_OP_breg19
            | constants::DW_OP_breg20
            | constants::DW_OP_breg21
            | constants::DW_OP_breg22
            | constants::DW_OP_breg23
            | constants::DW_OP_breg24
            | constants::DW_OP_breg25
            | constants::DW_OP_breg26
            | constants::DW_OP_breg27
            | constants::DW_OP_breg28
            | constants::DW_OP_breg29
            | constants::DW_OP_breg30
            | constants::DW_OP_breg31 => {
                let value = bytes.read_sleb128()?;
                Ok(Operation::RegisterOffset {
                    register: Register((opcode - constants::DW_OP_breg0.0).into()),
                    offset: value,
                    base_type: generic_type(),
                })
            }
            constants::DW_OP_regx => {
                let register = bytes.read_uleb128().and_then(Register::from_u64)?;
                Ok(Operation::Register { register })
            }
            constants::DW_OP_fbreg => {
                let value = bytes.read_sleb128()?;
                Ok(Operation::FrameOffset { offset: value })
            }
            constants::DW_OP_bregx => {
                let register = bytes.read_uleb128().and_then(Register::from_u64)?;
                let offset = bytes.read_sleb128()?;
                Ok(Operation::RegisterOffset {
                    register,
                    offset,
                    base_type: generic_type(),
                })
            }
            constants::DW_OP_piece => {
                let size = bytes.read_uleb128()?;
                Ok(Operation::Piece {
                    size_in_bits: 8 * size,
                    bit_offset: None,
                })
            }
            constants::DW_OP_deref_size => {
                let size = bytes.read_u8()?;
                Ok(Operation::Deref {
                    base_type: generic_type(),
                    size,
                    space: false,
                })
            }
            constants::DW_OP_xderef_size => {
                let size = bytes.read_u8()?;
                Ok(Operation::Deref {
                    base_type: generic_type(),
                    size,
                    space: true,
                })
            }
            constants::DW_OP_nop => Ok(Operation::Nop),
            constants::DW_OP_push_object_address => Ok(Operation::PushObjectAddress),
            constants::DW_OP_call2 => {
                let value = bytes.read_u16().map(R::Offset::from_u16)?;
                Ok(Operation::Call {
                    offset: DieReference::UnitRef(UnitOffset(value)),
                })
            }
            constants::DW_OP_call4 => {
                let value = bytes.read_u32().map(R::Offset::from_u32)?;
                Ok(Operation::Call {
                    offset: DieReference::UnitRef(UnitOffset(value)),
                })
            }
            constants::DW_OP_call_ref => {
                let value = bytes.read_offset(encoding.format)?;
                Ok(Operation::Call {
                    offset: DieReference::DebugInfoRef(DebugInfoOffset(value)),
                })
            }
            constants::DW_OP_GNU_variable_value => {
                let value = bytes.read_offset(encoding.format)?;
                Ok(Operation::VariableValue {
                    offset: DebugInfoOffset(value),
                })
            }
            constants::DW_OP_form_tls_address | constants::DW_OP_GNU_push_tls_address => {
                Ok(Operation::TLS)
            }
            constants::DW_OP_call_frame_cfa => Ok(Operation::CallFrameCFA),
            constants::DW_OP_bit_piece => {
                let size = bytes.read_uleb128()?;
                let offset = bytes.read_uleb128()?;
                Ok(Operation::Piece {
                    size_in_bits: size,
                    bit_offset: Some(offset),
                })
            }
            constants::DW_OP_implicit_value => {
                let len = bytes.read_uleb128().and_then(R::Offset::from_u64)?;
                let data = bytes.split(len)?;
                Ok(Operation::ImplicitValue { data })
            }
            constants::DW_OP_stack_value => Ok(Operation::StackValue),
            constants::DW_OP_implicit_pointer | constants::DW_OP_GNU_implicit_pointer => {
                let value = if encoding.version == 2 {
                    bytes
                        .read_address(encoding.address_size)
                        .and_then(Offset::from_u64)?
                } else {
                    bytes.read_offset(encoding.format)?
                };
                let byte_offset = bytes.read_sleb128()?;
                Ok(Operation::ImplicitPointer {
                    value: DebugInfoOffset(value),
                    byte_offset,
                })
            }
            constants::DW_OP_addrx | constants::DW_OP_GNU_addr_index => {
                let index = bytes.read_uleb128().and_then(R::Offset::from_u64)?;
                Ok(Operation::AddressIndex {
                    index: DebugAddrIndex(index),
                })
            }
            constants::DW_OP_constx | constants::DW_OP_GNU_const_index => {
                let index = bytes.read_uleb128().and_then(R::Offset::from_u64)?;
                Ok(Operation::ConstantIndex {
                    index: DebugAddrIndex(index),
                })
            }
            constants::DW_OP_entry_value | constants::DW_OP_GNU_entry_value => {
                let len = bytes.read_uleb128().and_then(R::Offset::from_u64)?;
                let expression = bytes.split(len)?;
                Ok(Operation::EntryValue { expression })
            }
            constants::DW_OP_GNU_parameter_ref => {
                let value = bytes.read_u32().map(R::Offset::from_u32)?;
                Ok(Operation::ParameterRef {
                    offset: UnitOffset(value),
                })
            }
            constants::DW_OP_const_type | constants::DW_OP_GNU_const_type => {
                let base_type = bytes.read_uleb128().and_then(R::Offset::from_u64)?;
                let len = bytes.read_u8()?;
                let value = bytes.split(R::Offset::from_u8(len))?;
                Ok(Operation::TypedLiteral {
                    base_type: UnitOffset(base_type),
                    value,
                })
            }
            constants::DW_OP_regval_type | constants::DW_OP_GNU_regval_type => {
                let register = bytes.read_uleb128().and_then(Register::from_u64)?;
                let base_type = bytes.read_uleb128().and_then(R::Offset::from_u64)?;
                Ok(Operation::RegisterOffset {
                    register,
                    offset: 0,
                    base_type: UnitOffset(base_type),
                })
            }
            constants::DW_OP_deref_type | constants::DW_OP_GNU_deref_type => {
                let size = bytes.read_u8()?;
                let base_type = bytes.read_uleb128().and_then(R::Offset::from_u64)?;
                Ok(Operation::Deref {
                    base_type: UnitOffset(base_type),
                    size,
                    space: false,
                })
            }
            constants::DW_OP_xderef_type => {
                let size = bytes.read_u8()?;
                let base_type = bytes.read_uleb128().and_then(R::Offset::from_u64)?;
                Ok(Operation::Deref {
                    base_type: UnitOffset(base_type),
                    size,
                    space: true,
                })
            }
            constants::DW_OP_convert | constants::DW_OP_GNU_convert => {
                let base_type = bytes.read_uleb128().and_then(R::Offset::from_u64)?;
                Ok(Operation::Convert {
                    base_type: UnitOffset(base_type),
                })
            }
            constants::DW_OP_reinterpret | constants::DW_OP_GNU_reinterpret => {
                let base_type = bytes.read_uleb128().and_then(R::Offset::from_u64)?;
                Ok(Operation::Reinterpret {
                    base_type: UnitOffset(base_type),
                })
            }
            constants::DW_OP_GNU_uninit => Ok(Operation::Uninitialized),
            constants::DW_OP_WASM_location => match bytes.read_u8()? {
                0x0 => {
                    let index = bytes.read_uleb128_u32()?;
                    Ok(Operation::WasmLocal { index })
                }
                0x1 => {
                    let index = bytes.read_uleb128_u32()?;
                    Ok(Operation::WasmGlobal { index })
                }
                0x2 => {
                    let index = bytes.read_uleb128_u32()?;
                    Ok(Operation::WasmStack { index })
                }
                0x3 => {
                    let index = bytes.read_u32()?;
                    Ok(Operation::WasmGlobal { index })
                }
                _ => Err(Error::InvalidExpression(name)),
            },
            _ => Err(Error::InvalidExpression(name)),
        }
    }
}
}
fn main(){}
