use vstd::prelude::*;
verus! {

pub enum Error { BadUnsignedLeb128, BadSignedLeb128, UnexpectedEof(u64) }
pub type Result<T> = core::result::Result<T, Error>;

pub trait Reader: Sized {
    spec fn view(&self) -> Seq<u8>;
    fn read_u8(&mut self) -> (r: Result<u8>)
        ensures
            old(self).view().len() > 0 ==> (r matches Ok(b) && b == old(self).view()[0] && final(self).view() == old(self).view().subrange(1, old(self).view().len() as int)),
            old(self).view().len() == 0 ==> (r is Err && final(self).view() == old(self).view());
}

const CONTINUATION_BIT: u8 = 1 << 7;

#[inline]
fn low_bits_of_byte(byte: u8) -> (r: u8)
  ensures r == byte & 0x7f
{
    byte & !CONTINUATION_BIT
}

    pub fn skip<R: Reader>(r: &mut R) -> (res: Result<()>)
      ensures res is Ok ==> final(r).view().len() < old(r).view().len()
    {
        loop
          invariant r.view().len() <= old(r).view().len()
          decreases r.view().len()
        {
            let byte = r.read_u8()?;
            if byte & CONTINUATION_BIT == 0 {
                return Ok(());
            }
        }
    }
}
fn main(){}
