use vstd::prelude::*;
verus! {
#[verifier::external_body]
#[verifier::reject_recursive_types(V)]
pub struct BTreeMap<V> { x: core::marker::PhantomData<V> }
#[verifier::external_body]
#[verifier::reject_recursive_types(V)]
pub struct VacantEntry<'a, V> { m: &'a mut BTreeMap<V>, k: u64 }
#[verifier::reject_recursive_types(V)]
pub enum Entry<'a, V> { Occupied(u64), Vacant(VacantEntry<'a, V>) }

impl<V> BTreeMap<V> {
    pub uninterp spec fn view(&self) -> Map<u64, V>;
    #[verifier::external_body]
    pub fn entry<'a>(&'a mut self, key: u64) -> (r: Entry<'a, V>)
        ensures old(self).view().contains_key(key) ==> r is Occupied && final(self).view() == old(self).view(),
    { unimplemented!() }
}
impl<'a, V> VacantEntry<'a, V> {
    #[verifier::external_body]
    pub fn insert(self, value: V) { unimplemented!() }
}
pub struct Abbrevs { map: BTreeMap<u32> }
impl Abbrevs {
    fn ins(&mut self, code: u64, v: u32) -> (r: core::result::Result<(), ()>)
    {
        match self.map.entry(code) {
            Entry::Occupied(_) => Err(()),
            Entry::Vacant(entry) => { entry.insert(v); Ok(()) }
        }
    }
}
}
fn main(){}
