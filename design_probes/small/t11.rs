use vstd::prelude::*;
verus! {
pub trait T1 { fn g(&self) -> u8; }
pub fn f<R>(x: &R, y: u8) -> (r: u8)
where
    R: T1,
  requires y < 10,
  ensures r == y,
{
    y
}
}
fn main(){}
