// Probe P29: worklist reachability (shape of write::unit::FilterDependencies::get_reachable)
// with the closure/minimality contract of DESIGN.md C19.  Body is the gimli text with
// `self` renamed (R-SELF) and FnvHashMap modelled by std HashMap.
use vstd::prelude::*;
use std::collections::HashMap;
verus! {

broadcast use vstd::std_specs::hash::group_hash_axioms;

pub struct FilterDependencies {
    pub edges: HashMap<usize, Vec<usize>>,
    pub required: Vec<usize>,
}

pub type G = Map<usize, Vec<usize>>;

// s is closed under the valid edges of g
pub open spec fn closed(g: G, s: Set<usize>) -> bool {
    forall|e: usize, i: int| #![trigger g[e]@[i], s.contains(e)]
        s.contains(e) && g.contains_key(e) && 0 <= i < g[e]@.len() && g.contains_key(g[e]@[i]) ==> s.contains(g[e]@[i])
}
// every valid element of v is in s
pub open spec fn vsub(v: Seq<usize>, g: G, s: Set<usize>) -> bool {
    forall|i: int| #![trigger v[i]] 0 <= i < v.len() && g.contains_key(v[i]) ==> s.contains(v[i])
}
pub open spec fn qsub(q: Seq<Vec<usize>>, g: G, s: Set<usize>) -> bool {
    forall|j: int| #![trigger q[j]] 0 <= j < q.len() ==> vsub(q[j]@, g, s)
}
pub open spec fn in_seq(v: Seq<usize>, x: usize) -> bool { exists|i: int| 0 <= i < v.len() && v[i] == x }
pub open spec fn in_queue(q: Seq<Vec<usize>>, x: usize) -> bool { exists|j: int| 0 <= j < q.len() && in_seq(#[trigger] q[j]@, x) }

pub open spec fn pending(q: Seq<Vec<usize>>, rest: Seq<usize>, x: usize) -> bool { in_queue(q, x) || in_seq(rest, x) }
// closure bookkeeping: every valid dependency of a visited entry, and every valid required entry, is visited or pending
pub open spec fn inv_c(g: G, req: Seq<usize>, vis: Seq<usize>, q: Seq<Vec<usize>>, rest: Seq<usize>) -> bool {
    &&& forall|e: usize, i: int| #![trigger g[e]@[i], in_seq(vis, e)]
            in_seq(vis, e) && g.contains_key(e) && 0 <= i < g[e]@.len() && g.contains_key(g[e]@[i]) ==> in_seq(vis, g[e]@[i]) || pending(q, rest, g[e]@[i])
    &&& forall|i: int| #![trigger req[i]] 0 <= i < req.len() && g.contains_key(req[i]) ==> in_seq(vis, req[i]) || pending(q, rest, req[i])
}
pub open spec fn inv_p(g: G, cur: G, vis: Seq<usize>) -> bool {
    forall|k: usize| #![trigger cur.contains_key(k)] g.contains_key(k) ==> (cur.contains_key(k) <==> !in_seq(vis, k))
}

fn get_reachable(this: FilterDependencies) -> (reachable: Vec<usize>)
    ensures
        // every result is a valid entry
        forall|i: int| 0 <= i < reachable@.len() ==> this.edges@.contains_key(#[trigger] reachable@[i]),
        // minimality: every closed set that contains the valid required entries contains the result
        forall|s: Set<usize>| closed(this.edges@, s) && vsub(this.required@, this.edges@, s) ==> vsub(reachable@, this.edges@, s),
        // TODO (not attempted to completion in the probe): closure --
        //   inv_c(this.edges@, this.required@, reachable@, Seq::empty(), Seq::empty())
        // with loop invariants inv_c(g, req, reachable@, queue@, rest-of-entries) and inv_p(g, cur, reachable@).
{
    let ghost g = this.edges@;
    let ghost req = this.required@;
    let mut this = this;
    let mut reachable: Vec<usize> = Vec::new();
    let mut queue = vec![this.required];
    proof { assert(queue@[0]@ == req); }
    while let Some(entries) = queue.pop()
        invariant
            forall|k: usize| #![trigger this.edges@.contains_key(k)] this.edges@.contains_key(k) ==> g.contains_key(k) && this.edges@[k] == g[k],
            forall|i: int| 0 <= i < reachable@.len() ==> g.contains_key(#[trigger] reachable@[i]),
            forall|s: Set<usize>| #![trigger closed(g, s)] closed(g, s) && vsub(req, g, s) ==> vsub(reachable@, g, s) && qsub(queue@, g, s),
            this.edges@.dom().finite(),
        decreases this.edges@.dom().len(), queue@.len(),
    {
        proof {
            assert forall|s: Set<usize>| #![trigger closed(g, s)] closed(g, s) && vsub(req, g, s) implies vsub(entries@, g, s) && qsub(queue@, g, s) by {
                // `entries` was the last vector of the old queue
            }
        }
        let ghost d0 = this.edges@.dom().len();
        let ghost ql0 = queue@.len();
        for entry in it: entries
            invariant
                it.index <= entries@.len(),
                this.edges@.dom().finite(),
                this.edges@.dom().len() <= d0,
                queue@.len() == ql0 + (d0 - this.edges@.dom().len()),
                forall|k: usize| #![trigger this.edges@.contains_key(k)] this.edges@.contains_key(k) ==> g.contains_key(k) && this.edges@[k] == g[k],
                forall|i: int| 0 <= i < reachable@.len() ==> g.contains_key(#[trigger] reachable@[i]),
                forall|s: Set<usize>| #![trigger closed(g, s)] closed(g, s) && vsub(req, g, s) ==> vsub(reachable@, g, s) && qsub(queue@, g, s) && vsub(entries@, g, s),
        {
            let ghost r0 = reachable@;
            let ghost q1 = queue@;
            let ghost cur0 = this.edges@;
            if let Some(deps) = this.edges.remove(&entry) {
                proof {
                    assert(this.edges@.dom() == cur0.dom().remove(entry));
                    assert(entry == entries@[it.index as int]);
                    assert(cur0.contains_key(entry));
                    assert(g.contains_key(entry) && deps == g[entry]);
                }
                reachable.push(entry);
                queue.push(deps);
                proof {
                    assert forall|s: Set<usize>| #![trigger closed(g, s)] closed(g, s) && vsub(req, g, s) implies vsub(reachable@, g, s) && qsub(queue@, g, s) by {
                        assert(vsub(entries@, g, s));
                        assert(s.contains(entry));
                        assert(vsub(r0, g, s));
                        assert forall|i: int| #![trigger reachable@[i]] 0 <= i < reachable@.len() && g.contains_key(reachable@[i]) implies s.contains(reachable@[i]) by {
                            if i < r0.len() { assert(reachable@[i] == r0[i]); } else { assert(reachable@[i] == entry); }
                        }
                        assert(vsub(deps@, g, s)) by {
                            assert forall|i: int| #![trigger deps@[i]] 0 <= i < deps@.len() && g.contains_key(deps@[i]) implies s.contains(deps@[i]) by {
                                assert(g[entry]@[i] == deps@[i]);
                            }
                        }
                        assert(qsub(q1, g, s));
                        assert forall|j: int| #![trigger queue@[j]] 0 <= j < queue@.len() implies vsub(queue@[j]@, g, s) by {
                            if j < q1.len() { assert(queue@[j] == q1[j]); } else { assert(queue@[j] == deps); }
                        }
                    }
                }
            }
        }
    }
    reachable
}
}
fn main(){}
