use vstd::prelude::*;
verus! {
#[derive(Clone, Copy, PartialEq, Eq)]
pub enum V { Data1(u8), Udata(u64), Lang(u16), Other }
pub struct A { pub name: u16, pub value: V }
impl A {
    pub fn udata_value(&self) -> (r: Option<u64>)
        ensures r == (match self.value { V::Data1(d) => Some(d as u64), V::Udata(d) => Some(d), _ => None })
    {
        Some(match self.value { V::Data1(d) => u64::from(d), V::Udata(d) => d, _ => return None })
    }
    pub open spec fn payload(v: V) -> Option<int> { match v { V::Data1(d) => Some(d as int), V::Udata(d) => Some(d as int), V::Lang(d) => Some(d as int), V::Other => None } }
    pub fn value(&self) -> (r: V)
        ensures Self::payload(r) == Self::payload(self.value) || (r is Lang && self.value is Udata)
    {
        macro_rules! constant {
            ($value:ident, $variant:ident) => {
                if let Some(value) = self.$value() {
                    return V::$variant(value);
                }
            };
        }
        match self.name {
            1 => { constant!(udata_value, Udata); }
            _ => {}
        }
        self.value
    }
}
}
fn main(){}
