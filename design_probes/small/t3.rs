use vstd::prelude::*;
verus! {
#[derive(Clone, Copy, PartialEq, Eq)]
pub struct DwForm(pub u16);
pub const DW_FORM_addr: DwForm = DwForm(0x01);
pub const DW_FORM_block2: DwForm = DwForm(0x03);
pub const DW_FORM_data1: DwForm = DwForm(0x0b);

pub fn size(form: DwForm, addr: u8) -> (r: Option<u8>)
  ensures form.0 == 0x0b ==> r == Some(1u8)
{
    match form {
        DW_FORM_addr => Some(addr),
        DW_FORM_data1 | DW_FORM_block2 => Some(1),
        _ => None,
    }
}
}
fn main(){}
