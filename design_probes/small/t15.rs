use vstd::prelude::*;
verus! {
fn f(a: Option<u32>, b: u32) -> (r: u32)
{
    if let Some(x) = a && x > b { 1 } else { 0 }
}
}
fn main(){}
