use vstd::prelude::*;
verus! {
pub struct Row { pub end: u64, pub cfa: u64 }
pub struct Ctx { pub row: Row, pub other: u64 }
impl Ctx {
    fn row_mut(&mut self) -> (r: &mut Row)
        ensures *r == old(self).row,
                final(self).row == *final(r),
                final(self).other == old(self).other,
    {
        &mut self.row
    }
}
fn f(c: &mut Ctx)
    ensures final(c).row.end == 5, final(c).row.cfa == old(c).row.cfa, final(c).other == old(c).other
{
    c.row_mut().end = 5;
}
}
fn main(){}
