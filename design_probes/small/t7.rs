use vstd::prelude::*;
use core::num::Wrapping;
verus! {
fn f(a: u64, b: u64) -> u64 {
    let x = Wrapping(a) * Wrapping(b);
    x.0
}
}
fn main(){}
