use vstd::prelude::*;
verus! {
fn f(v: Vec<usize>) -> (r: usize)
    requires v@.len() < 1000, forall|i: int| 0 <= i < v@.len() ==> v@[i] < 1000,
    ensures r <= 1000000
{
    let mut n: usize = 0;
    for x in it: v
        invariant it.index <= v@.len(), n <= it.index * 1000,
    {
        assert(x == v@[it.index as int]);
        n = n + x;
    }
    n
}
}
fn main(){}
