use vstd::prelude::*;
verus! {
#[verifier::external_body]
pub struct AV { x: core::marker::PhantomData<u64> }
impl AV {
    pub uninterp spec fn view(&self) -> Seq<u64>;
    #[verifier::external_body] pub fn len(&self) -> (r: usize) ensures r == self.view().len() { unimplemented!() }
}
impl core::ops::Deref for AV {
    type Target = [u64];
    #[verifier::external_body]
    fn deref(&self) -> (r: &[u64])
        ensures r@ == self.view()
    { unimplemented!() }
}
fn f(a: &AV, i: usize) -> (r: u64)
    requires i < a.view().len()
    ensures r == a.view()[i as int]
{
    a[i]
}
}
fn main(){}
