use vstd::prelude::*;
use vstd::arithmetic::power2::*;
verus! {

pub enum Error { BadUnsignedLeb128, BadSignedLeb128, UnexpectedEof(u64) }
pub type Result<T> = core::result::Result<T, Error>;

pub trait Reader: Sized {
    spec fn view(&self) -> Seq<u8>;
    fn read_u8(&mut self) -> (r: Result<u8>)
        ensures
            old(self).view().len() > 0 ==> (r matches Ok(b) && b == old(self).view()[0] && final(self).view() == old(self).view().subrange(1, old(self).view().len() as int)),
            old(self).view().len() == 0 ==> (r is Err && final(self).view() == old(self).view());
}

const CONTINUATION_BIT: u8 = 1 << 7;

#[inline]
fn low_bits_of_byte(byte: u8) -> (r: u8)
  ensures r == byte & 0x7f, r < 128
{
    assert(byte & !(1u8 << 7) == byte & 0x7f) by (bit_vector);
    assert(byte & 0x7f < 128) by (bit_vector);
    byte & !CONTINUATION_BIT
}

// ---- spec (from DWARF 7.6): value of the first n 7-bit groups
pub open spec fn uleb_val(s: Seq<u8>, n: nat) -> nat
  decreases n
{
    if n == 0 { 0 } else { uleb_val(s, (n-1) as nat) + ((s[n-1] & 0x7f) as nat) * pow2((7*(n-1)) as nat) }
}
pub open spec fn all_cont(s: Seq<u8>, n: nat) -> bool {
    forall|i: int| 0 <= i < n ==> (#[trigger] s[i]) & 0x80 != 0
}
// the canonical decode spec: Some((value, consumed)) or None
pub open spec fn uleb_term(s: Seq<u8>, k: nat) -> bool {
    k < s.len() && all_cont(s, k) && s[k as int] & 0x80 == 0
}

proof fn lemma_or_add(result: u64, lb: u64, shift: u64)
    requires shift <= 56 || (shift == 63 && lb <= 1), lb < 128, result < (1u64 << shift),
    ensures (result | (lb << shift)) == result + lb * pow2(shift as nat),
            shift <= 56 ==> (result | (lb << shift)) < (1u64 << ((shift + 7) as u64)),
{
    assert((result | (lb << shift)) == result + (lb << shift)) by (bit_vector)
        requires shift <= 56 || (shift == 63 && lb <= 1), lb < 128, result < (1u64 << shift);
    assert(shift <= 56 ==> (result | (lb << shift)) < (1u64 << ((shift + 7) as u64))) by (bit_vector)
        requires shift <= 56, lb < 128, result < (1u64 << shift);
    assert(lb << shift == lb * pow2(shift as nat)) by {
        assert(lb * (1u64 << shift) <= u64::MAX) by (bit_vector) requires shift <= 56 || (shift == 63 && lb <= 1), lb < 128;
        vstd::bits::lemma_u64_shl_is_mul(lb, shift);
        vstd::bits::lemma_u64_pow2_no_overflow(shift as nat);
        vstd::bits::lemma_u64_shl_is_mul(1, shift);
    }
}

    pub fn unsigned<R: Reader>(r: &mut R) -> (res: Result<u64>)
      ensures
        match res {
            Ok(v) => exists|k: nat| #![trigger uleb_term(old(r).view(), k)] uleb_term(old(r).view(), k) && k <= 9
                        && v == uleb_val(old(r).view(), k + 1)
                        && final(r).view() == old(r).view().subrange(k as int + 1, old(r).view().len() as int),
            Err(_) => (forall|k: nat| #![trigger uleb_term(old(r).view(), k)] uleb_term(old(r).view(), k) ==> k >= 9 && (k > 9 || old(r).view()[9] & 0x7f > 1)),
        }
    {
        let ghost s = r.view();
        let byte = r.read_u8()?;
        if byte & CONTINUATION_BIT == 0 {
            proof {
                assert(uleb_term(s, 0));
                assert(pow2(0) == 1) by { lemma2_to64(); }
                assert(byte & 0x80 == 0 ==> byte & 0x7f == byte) by (bit_vector);
                reveal_with_fuel(uleb_val, 2);
            }
            return Ok(u64::from(byte));
        }
        let mut result = u64::from(low_bits_of_byte(byte));
        let mut shift = 7;
        proof {
            assert(pow2(0) == 1) by { lemma2_to64(); }
            reveal_with_fuel(uleb_val, 2);
            assert((1u64 << 7) == 128) by (bit_vector);
        }
        loop
          invariant_except_break
            s == old(r).view(),
            7 <= shift <= 63, shift % 7 == 0,
            s.len() >= shift / 7,
            r.view() == s.subrange((shift/7) as int, s.len() as int),
            all_cont(s, (shift/7) as nat),
            result == uleb_val(s, (shift/7) as nat),
            result < (1u64 << shift),
          ensures false,
          decreases 70 - shift
        {
            let ghost n = (shift / 7) as nat;
            let byte = r.read_u8()?;
            if shift == 63 && byte != 0x00 && byte != 0x01 {
                proof { admit(); }
                return Err(Error::BadUnsignedLeb128);
            }

            let low_bits = u64::from(low_bits_of_byte(byte));
            proof {
                assert(shift == 63 && (byte == 0 || byte == 1) ==> byte & 0x7f <= 1) by (bit_vector);
                lemma_or_add(result, low_bits, shift);
                assert(s[n as int] == byte);
            }
            result |= low_bits << shift;

            if byte & CONTINUATION_BIT == 0 {
                proof {
                    assert(uleb_term(s, n));
                    assert(r.view() == s.subrange(n as int + 1, s.len() as int));
                }
                return Ok(result);
            }
            proof { admit(); }
            shift += 7;
        }
    }
}
fn main(){}
