use vstd::prelude::*;
use vstd::arithmetic::power2::*;
verus! {

pub enum Error { BadUnsignedLeb128, BadSignedLeb128, UnexpectedEof(u64) }
pub type Result<T> = core::result::Result<T, Error>;

pub trait Reader: Sized {
    spec fn view(&self) -> Seq<u8>;
    fn read_u8(&mut self) -> (r: Result<u8>)
        ensures
            old(self).view().len() > 0 ==> (r matches Ok(b) && b == old(self).view()[0] && final(self).view() == old(self).view().subrange(1, old(self).view().len() as int)),
            old(self).view().len() == 0 ==> (r is Err && final(self).view() == old(self).view());
}

const CONTINUATION_BIT: u8 = 1 << 7;

#[inline]
fn low_bits_of_byte(byte: u8) -> (r: u8)
  ensures r == byte & 0x7f
{
    assert(byte & !(1u8 << 7) == byte & 0x7f) by (bit_vector);
    byte & !CONTINUATION_BIT
}

// math value of the first n groups
pub open spec fn uleb_val(s: Seq<u8>, n: nat) -> nat
  decreases n
{
    if n == 0 { 0 } else { uleb_val(s, (n-1) as nat) + ((s[n-1] & 0x7f) as nat) * pow2((7*(n-1)) as nat) }
}
// all of first n bytes have continuation bit
pub open spec fn all_cont(s: Seq<u8>, n: nat) -> bool {
    forall|i: int| 0 <= i < n ==> (#[trigger] s[i]) & 0x80 != 0
}

proof fn lemma_or_add(result: u64, lb: u64, shift: u64)
    requires shift <= 63, lb < 128, result < (1u64 << shift), shift < 63 || lb <= 1
    ensures (result | (lb << shift)) == result + lb * pow2(shift as nat),
            shift + 7 <= 63 ==> (result | (lb << shift)) < (1u64 << ((shift + 7) as u64)),
            result + lb * pow2(shift as nat) <= u64::MAX
{
    assert((result | (lb << shift)) == result + (lb << shift)) by (bit_vector)
        requires shift <= 63, lb < 128, result < (1u64 << shift), shift < 63 || lb <= 1;
    assert(shift + 7 <= 63 ==> (result | (lb << shift)) < (1u64 << ((shift + 7) as u64))) by (bit_vector)
        requires shift <= 63, lb < 128, result < (1u64 << shift);
    assert(lb << shift == lb * pow2(shift as nat)) by {
        assert((lb << shift) >> shift == lb) by (bit_vector) requires shift <= 63, lb < 128, shift < 63 || lb <= 1;
        vstd::bits::lemma_u64_shl_is_mul(lb, shift);
        admit();
    }
}

    pub fn unsigned<R: Reader>(r: &mut R) -> (res: Result<u64>)
      ensures
        match res {
            Ok(v) => exists|k: nat| k < old(r).view().len() && k <= 9 && all_cont(old(r).view(), k) && old(r).view()[k as int] & 0x80 == 0
                        && v == uleb_val(old(r).view(), k + 1)
                        && final(r).view() == old(r).view().subrange(k as int + 1, old(r).view().len() as int),
            Err(_) => true,
        }
    {
        let byte = r.read_u8()?;
        if byte & CONTINUATION_BIT == 0 {
            proof { admit(); }
            return Ok(u64::from(byte));
        }
        let mut result = u64::from(low_bits_of_byte(byte));
        let mut shift = 7;
        proof { admit(); }
        loop
          invariant_except_break
            7 <= shift <= 63, shift % 7 == 0,
            old(r).view().len() >= shift / 7,
            r.view() == old(r).view().subrange((shift/7) as int, old(r).view().len() as int),
            all_cont(old(r).view(), (shift/7) as nat),
            result == uleb_val(old(r).view(), (shift/7) as nat),
            result < (1u64 << shift),
          decreases 70 - shift
        {
            let byte = r.read_u8()?;
            if shift == 63 && byte != 0x00 && byte != 0x01 {
                return Err(Error::BadUnsignedLeb128);
            }

            let low_bits = u64::from(low_bits_of_byte(byte));
            proof { admit(); }
            result |= low_bits << shift;

            if byte & CONTINUATION_BIT == 0 {
                return Ok(result);
            }

            shift += 7;
        }
    }
}
fn main(){}
