use vstd::prelude::*;
verus! {
global size_of usize == 8;
pub enum Error { UnexpectedEof(u64) }
pub type Result<T> = core::result::Result<T, Error>;

pub struct EndianSlice<'input> {
    slice: &'input [u8],
}
impl<'input> EndianSlice<'input> {
    pub closed spec fn view(&self) -> Seq<u8> { self.slice@ }

    fn read_slice(&mut self, len: usize) -> (r: Result<&'input [u8]>)
      ensures
        old(self).view().len() >= len ==> (r matches Ok(v) && v@ == old(self).view().subrange(0, len as int) && final(self).view() == old(self).view().subrange(len as int, old(self).view().len() as int)),
        old(self).view().len() < len ==> r is Err && final(self).view() == old(self).view(),
    {
        if self.slice.len() < len {
            Err(Error::UnexpectedEof(0))
        } else {
            let val = &self.slice[..len];
            self.slice = &self.slice[len..];
            Ok(val)
        }
    }
}
}
fn main(){}
