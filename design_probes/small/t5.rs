use vstd::prelude::*;
verus! {

pub enum Error { UnexpectedEof(u64), UnknownReservedLength(u32), UnsupportedOffset }
pub type Result<T> = core::result::Result<T, Error>;
#[derive(Clone, Copy, PartialEq, Eq)]
pub enum Format { Dwarf64 = 8, Dwarf32 = 4 }

pub trait Reader: Sized {
    spec fn bytes(&self) -> Seq<u8>;

    fn read_u32(&mut self) -> (r: Result<u32>)
        ensures
            old(self).bytes().len() >= 4 ==> r is Ok && final(self).bytes() == old(self).bytes().subrange(4, old(self).bytes().len() as int),
            old(self).bytes().len() < 4 ==> r is Err;

    fn read_u64(&mut self) -> (r: Result<u64>)
        ensures
            old(self).bytes().len() >= 8 ==> r is Ok && final(self).bytes() == old(self).bytes().subrange(8, old(self).bytes().len() as int),
            old(self).bytes().len() < 8 ==> r is Err;

    fn read_initial_length(&mut self) -> (r: Result<(usize, Format)>)
        ensures r is Ok ==> final(self).bytes().len() < old(self).bytes().len()
    {
        const MAX_DWARF_32_UNIT_LENGTH: u32 = 0xffff_fff0;
        const DWARF_64_INITIAL_UNIT_LENGTH: u32 = 0xffff_ffff;

        let val = self.read_u32()?;
        if val < MAX_DWARF_32_UNIT_LENGTH {
            Ok((val as usize, Format::Dwarf32))
        } else if val == DWARF_64_INITIAL_UNIT_LENGTH {
            let val = self.read_u64()?;
            Ok((val as usize, Format::Dwarf64))
        } else {
            Err(Error::UnknownReservedLength(val))
        }
    }
}
}
fn main(){}
