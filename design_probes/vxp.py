#!/usr/bin/env python3
"""Prototype of the Verus extraction library (probe; the real one will live in /verif/vx).

Everything here is syntactic.  Source text is taken from /repo/src on every call.
"""
import re, sys, os

REPO = os.environ.get("GIMLI_REPO", "/repo") + "/src/"
FEATURES = {"read-core", "read", "write", "std", "endian-reader"}


class Lost(Exception):
    """an anchor (item / loop / statement) was not found -> exit 2, never a violation"""


# ----------------------------------------------------------------------------- lexing helpers
def strip_comments(text):
    out = []
    i = 0
    n = len(text)
    while i < n:
        c = text[i]
        if c == '"':
            j = i + 1
            while text[j] != '"':
                if text[j] == '\\':
                    j += 1
                j += 1
            out.append(text[i:j + 1])
            i = j + 1
        elif c == "'" :
            m = re.match(r"'(\\.|\\x..|\\u\{[0-9a-fA-F]+\}|[^\\'])'", text[i:i + 12])
            if m:
                out.append(m.group(0))
                i += len(m.group(0))
            else:
                out.append(c)
                i += 1
        elif text.startswith("//", i):
            j = text.find("\n", i)
            if j < 0:
                j = n
            i = j
        elif text.startswith("/*", i):
            j = text.find("*/", i)
            i = j + 2
        else:
            out.append(c)
            i += 1
    return "".join(out)


def skip_string(text, k):
    k += 1
    while text[k] != '"':
        if text[k] == '\\':
            k += 1
        k += 1
    return k


def match_close(text, k):
    """text[k] is an opening bracket; return index of the matching closer"""
    pairs = {'(': ')', '[': ']', '{': '}'}
    depth = 0
    while True:
        c = text[k]
        if c in '([{':
            depth += 1
        elif c in ')]}':
            depth -= 1
            if depth == 0:
                return k
        elif c == '"':
            k = skip_string(text, k)
        k += 1


def body_open(text, k):
    """from the start of an item header, index of its body '{' (or of ';' for body-less items)"""
    depth = 0
    while True:
        c = text[k]
        if c in '([':
            depth += 1
        elif c in ')]':
            depth -= 1
        elif c == '"':
            k = skip_string(text, k)
        elif depth == 0 and c in '{;':
            return k
        k += 1


def item_span(text, k):
    """k = start of header (after attributes). return end index (exclusive)"""
    b = body_open(text, k)
    if text[b] == ';':
        return b + 1
    e = match_close(text, b) + 1
    # tuple structs / consts end with ';'
    m = re.match(r"\s*;", text[e:])
    if m and re.match(r"\s*(pub(\([a-z]+\))?\s+)?(struct|const|static|type)\b", text[k:k + 40]):
        e += m.end()
    return e


def attrs_start(text, k):
    """extend k backwards over preceding #[...] attribute lines"""
    while True:
        m = re.search(r"(#\[[^\n]*\]\s*)$", text[:k])
        if not m:
            return k
        k = m.start()


# ----------------------------------------------------------------------------- cfg
def _split_top(s):
    parts, d, cur = [], 0, ''
    for c in s:
        if c == '(':
            d += 1
        elif c == ')':
            d -= 1
        if c == ',' and d == 0:
            parts.append(cur)
            cur = ''
        else:
            cur += c
    parts.append(cur)
    return [p for p in parts if p.strip()]


def eval_cfg(expr):
    expr = expr.strip()
    m = re.fullmatch(r'feature\s*=\s*"([^"]+)"', expr)
    if m:
        return m.group(1) in FEATURES
    if expr == 'test':
        return False
    m = re.fullmatch(r'target_endian\s*=\s*"(\w+)"', expr)
    if m:
        return m.group(1) == 'little'
    m = re.fullmatch(r'(not|all|any)\((.*)\)', expr, re.S)
    if m:
        vals = [eval_cfg(p) for p in _split_top(m.group(2))]
        return {'not': lambda v: not v[0], 'all': all, 'any': any}[m.group(1)](vals)
    raise Lost('cfg expression not understood: ' + expr)


def apply_cfg(text):
    pat = re.compile(r'#\[cfg\(')
    i, out = 0, ''
    while True:
        m = pat.search(text, i)
        if not m:
            return out + text[i:]
        out += text[i:m.start()]
        k = match_close(text, m.end() - 1)
        expr = text[m.end():k]
        assert text[k + 1] == ']'
        k += 2
        if eval_cfg(expr):
            i = k
            continue
        j = k
        while True:
            mm = re.match(r'\s*#\[', text[j:])
            if not mm:
                break
            j = match_close(text, j + mm.end() - 1) + 1
        mm = re.match(r'\s*', text[j:])
        j += mm.end()
        # statement-level or field-level cfg: item ends at ';' / ',' / '}'
        e = item_span(text, j)
        if text[e:e + 1] == ',':
            e += 1
        i = e


# ----------------------------------------------------------------------------- items
class Source:
    cache = {}

    def __init__(self, rel):
        self.rel = rel
        if rel not in Source.cache:
            raw = open(REPO + rel).read()
            Source.cache[rel] = apply_cfg(strip_comments(raw))
        self.text = Source.cache[rel]

    def item(self, header_re, within=None, with_attrs=True):
        text = self.text
        lo, hi = 0, len(text)
        if within is not None:
            a = self._find(within, 0, len(text))
            b = body_open(text, a)
            lo, hi = b + 1, match_close(text, b)
        k = self._find(header_re, lo, hi)
        e = item_span(text, k)
        s = attrs_start(text, k) if with_attrs else k
        return text[s:e]

    def _find(self, header_re, lo, hi):
        m = re.compile(header_re, re.M).search(self.text, lo, hi)
        if not m:
            raise Lost(f'{self.rel}: item `{header_re}` not found')
        return m.start()


def method(impl_text, name):
    """(start,end) of method `name` (with attributes) inside an impl/trait text"""
    m = re.search(r'\bfn\s+%s\b' % re.escape(name), impl_text)
    if not m:
        raise Lost(f'method {name} not found')
    k = m.start()
    # include visibility / qualifiers before `fn`
    mm = re.search(r'((pub(\([a-z]+\))?\s+)?(const\s+)?(unsafe\s+)?)$', impl_text[:k])
    k = mm.start() if mm else k
    e = item_span(impl_text, k)
    return attrs_start(impl_text, k), e


def drop_methods(impl_text, names):
    for n in names:
        s, e = method(impl_text, n)
        impl_text = impl_text[:s] + impl_text[e:]
    return impl_text


def make_required(impl_text, names):
    """trait default method -> required method (signature only)"""
    for n in names:
        s, e = method(impl_text, n)
        k = re.search(r'\bfn\s+%s\b' % re.escape(n), impl_text[s:e]).start() + s
        b = body_open(impl_text, k)
        if impl_text[b] == ';':
            continue
        impl_text = impl_text[:b].rstrip() + ';' + impl_text[e:]
    return impl_text


def external_body(impl_text, names):
    for n in names:
        s, e = method(impl_text, n)
        k = re.search(r'\bfn\s+%s\b' % re.escape(n), impl_text[s:e]).start() + s
        b = body_open(impl_text, k)
        impl_text = (impl_text[:s] + '\n    #[verifier::external_body]\n    ' + impl_text[s:b].lstrip()
                     + '{ unimplemented!() }' + impl_text[e:])
    return impl_text


# ----------------------------------------------------------------------------- rewrites
KEEP_DERIVES = ['Debug', 'Clone', 'Copy', 'PartialEq', 'Eq']
DROP_ATTRS = [r'#\[inline(\([a-z]+\))?\]', r'#\[doc\(hidden\)\]', r'#\[non_exhaustive\]', r'#\[repr\(C\)\]',
              r'#\[allow\([^\]]*\)\]', r'#\[must_use[^\]]*\]', r'#\[repr\(u64\)\]']


def r_attr(s):
    def derive(m):
        keep = [x for x in KEEP_DERIVES if re.search(r'\b%s\b' % x, m.group(0))]
        return '#[derive(%s)]' % ', '.join(keep) if keep else ''
    s = re.sub(r'#\[derive\([^\]]*\)\]', derive, s)
    for a in DROP_ATTRS:
        s = re.sub(a, '', s)
    return s


def _args(s, p):
    e = match_close(s, p)
    inner = s[p + 1:e]
    parts, d, cur, i = [], 0, '', 0
    while i < len(inner):
        c = inner[i]
        if c in '([{':
            d += 1
        elif c in ')]}':
            d -= 1
        elif c == '"':
            j = skip_string(inner, i)
            cur += inner[i:j + 1]
            i = j + 1
            continue
        if c == ',' and d == 0:
            parts.append(cur)
            cur = ''
        else:
            cur += c
        i += 1
    if cur.strip():
        parts.append(cur)
    return parts, e


def r_assert(s):
    pat = re.compile(r'\b(debug_assert_eq|debug_assert_ne|debug_assert|assert_eq|assert_ne|assert)!\s*\(')
    out, i = '', 0
    while True:
        m = pat.search(s, i)
        if not m:
            out += s[i:]
            break
        out += s[i:m.start()]
        args, e = _args(s, m.end() - 1)
        kind = m.group(1)
        if kind.endswith('_eq'):
            cond = f'({args[0].strip()}) == ({args[1].strip()})'
        elif kind.endswith('_ne'):
            cond = f'({args[0].strip()}) != ({args[1].strip()})'
        else:
            cond = args[0].strip()
        out += f'crate::verif_assert({cond})'
        i = e + 1
    out = re.sub(r'\b(unreachable|unimplemented)!\(\s*\)', 'crate::verif_unreachable()', out)
    return out


def r_closure(s):
    # Verus rejects `_` closure parameters
    return re.sub(r'\|\s*_\s*\|', '|_verif_unused|', s)


def split_and(cond):
    """split a condition at top-level `&&`"""
    parts, d, cur, i = [], 0, '', 0
    while i < len(cond):
        c = cond[i]
        if c in '([{':
            d += 1
        elif c in ')]}':
            d -= 1
        elif c == '"':
            j = skip_string(cond, i)
            cur += cond[i:j + 1]
            i = j + 1
            continue
        if d == 0 and cond.startswith('&&', i):
            parts.append(cur.strip())
            cur = ''
            i += 2
            continue
        cur += c
        i += 1
    parts.append(cur.strip())
    return parts


def r_letchain(s):
    """R-LETCHAIN: else-less `if A && let P = e && B { body }` -> nested ifs (Verus has no let chains)."""
    out, i = '', 0
    pat = re.compile(r'\bif\b')
    while True:
        m = pat.search(s, i)
        if not m:
            return out + s[i:]
        # condition runs to the '{' at depth 0
        k, d = m.end(), 0
        while True:
            c = s[k]
            if c in '([':
                d += 1
            elif c in ')]':
                d -= 1
            elif c == '"':
                k = skip_string(s, k)
            elif c == '{' and d == 0:
                break
            k += 1
        cond = s[m.end():k]
        parts = split_and(cond)
        has_let = any(re.match(r'let\b', p) for p in parts)
        if not (has_let and len(parts) > 1):
            out += s[i:k]
            i = k
            continue
        e = match_close(s, k)
        if re.match(r'\s*else\b', s[e + 1:]):
            raise Lost('R-LETCHAIN: let chain with else branch is outside the rule')
        body = r_letchain(s[k:e + 1])
        nested = body
        for p in reversed(parts):
            nested = 'if ' + p + ' ' + ('{ ' + nested + ' }' if nested is not body else nested)
        out += s[i:m.start()] + nested
        i = e + 1


def clean(s):
    return r_letchain(r_closure(r_assert(r_attr(s))))


# ----------------------------------------------------------------------------- contract splicing
def splice(fn_text, name, ret=None, requires=None, ensures=None, loops=None, before=None, decreases=None):
    """fn_text contains fn `name`; insert contract.  loops: {ordinal: 'invariant ... decreases ...'}.
    before: list of (verbatim statement, ghost text)."""
    m = re.search(r'\bfn\s+%s\b' % re.escape(name), fn_text)
    if not m:
        raise Lost(f'splice: fn {name}')
    k = m.start()
    b = body_open(fn_text, k)
    header = fn_text[k:b]
    body_end = match_close(fn_text, b) if fn_text[b] == '{' else b
    body = fn_text[b:body_end + 1]
    if ret:
        # rewrite `-> T` into `-> (ret: T)`; T ends at `where` or end of header
        d = 0
        arrow = None
        i = header.index('(')
        i = match_close(header, i) + 1
        mm = re.match(r'\s*->\s*', header[i:])
        if mm:
            ts = i + mm.end()
            wm = re.search(r'\bwhere\b', header[ts:])
            te = ts + wm.start() if wm else len(header)
            ty = header[ts:te].strip()
            header = header[:i] + f' -> ({ret}: {ty})\n' + header[te:]
    spec = ''
    if requires:
        spec += '  requires\n    ' + ',\n    '.join(requires) + ',\n'
    if ensures:
        spec += '  ensures\n    ' + ',\n    '.join(ensures) + ',\n'
    if decreases:
        spec += '  decreases ' + decreases + ',\n'
    if loops:
        body = splice_loops(body, loops)
    for stmt, ghost in (before or []):
        idx = body.find(stmt)
        if idx < 0:
            raise Lost(f'splice: anchor `{stmt}` in {name}')
        body = body[:idx] + ghost + '\n' + body[idx:]
    return fn_text[:k] + header.rstrip() + '\n' + spec + body + fn_text[body_end + 1:]


LOOP_RE = re.compile(r'\b(loop|while|for)\b')


def splice_loops(body, loops):
    """insert loop specs after the loop header of the n-th loop (textual order)"""
    out, i, n = '', 0, 0
    while True:
        m = LOOP_RE.search(body, i)
        if not m:
            out += body[i:]
            break
        # header ends at the '{' that opens the loop body (depth 0 from m.end())
        k = m.end()
        d = 0
        while True:
            c = body[k]
            if c in '([':
                d += 1
            elif c in ')]':
                d -= 1
            elif c == '{' and d == 0:
                # `while let Some(x) = foo {`  -- struct literals in loop headers do not occur in gimli
                break
            k += 1
        out += body[i:k]
        if n in loops:
            out += '\n' + loops[n] + '\n'
        n += 1
        i = k
    missing = [o for o in loops if o >= n]
    if missing:
        raise Lost(f'splice: loop ordinals {missing} not found')
    return out


# ----------------------------------------------------------------------------- constants from dw! macro
def dw_consts(ty, prefix):
    c = Source('constants.rs').text
    m = re.search(r'%s\((\w+)\) \{(.*?)\n\}\);' % ty, c, re.S)
    if not m:
        raise Lost('dw! ' + ty)
    out = ['#[derive(Clone, Copy, PartialEq, Eq, Debug)]\npub struct %s(pub %s);' % (ty, m.group(1))]
    for name, val in re.findall(r'(%s\w+)\s*=\s*(0x[0-9a-fA-F_]+|\d+)' % prefix, m.group(2)):
        out.append(f'pub const {name}: {ty} = {ty}({val});')
    return '\n'.join(out)
