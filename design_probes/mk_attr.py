from ex import *
from rw import rewrite_asserts
import re
R='/repo/src/'
_,forms=consts(R+'constants.rs','DwForm','DW_FORM_')
_,ats=consts(R+'constants.rs','DwAt','DW_AT_')
ab=R+'read/abbrev.rs'; un=R+'read/unit.rs'; rd=R+'read/reader.rs'
items=[
 get(ab, r'^pub struct AttributeSpecification \{'),
 get(ab, r'^impl AttributeSpecification \{'),
 get(ab, r'^pub\(crate\) fn get_attribute_size'),
 get(un, r'^fn allow_section_offset'),
 get(un, r'^pub\(crate\) fn skip_attributes<'),
 get(rd, r'^impl ReaderOffset for usize'),
]
body='\n\n'.join(items)
body=re.sub(r'#\[derive\([^\]]*\)\]', '#[derive(Clone, Copy, PartialEq, Eq, Debug)]', body)
body=body.replace('#[doc(hidden)]','').replace('#[inline]','').replace('#[inline(always)]','')
body=rewrite_asserts(body)
body=body.replace('<R: Reader>','<R: Reader<Offset = usize>>')
pre=open('prelude2.rs').read()
pre=pre.replace('/*CONSTS*/','\n    '.join(['#[derive(Clone, Copy, PartialEq, Eq, Debug)]\n    pub struct DwForm(pub u16);']+forms+['#[derive(Clone, Copy, PartialEq, Eq, Debug)]\n    pub struct DwAt(pub u16);']+ats))
open('attr_v.rs','w').write(pre.replace('/*BODY*/',body))
