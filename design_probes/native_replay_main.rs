use gimli::*;
use std::panic::catch_unwind;
fn try_<F: FnOnce() + std::panic::UnwindSafe>(name: &str, f: F) {
    let r = catch_unwind(f);
    println!("{name}: {}", if r.is_err() { "PANIC" } else { "ok" });
}
fn main() {
    std::panic::set_hook(Box::new(|i| { eprintln!("  panic: {}", i); }));
    // 1. DW_OP_piece with size 2^61
    try_("op_piece_2^61", || {
        let mut b = vec![0x93u8]; // DW_OP_piece
        let mut v: u64 = 1 << 61; loop { let mut x = (v & 0x7f) as u8; v >>= 7; if v != 0 { x |= 0x80; } b.push(x); if v == 0 { break; } }
        let mut r = EndianSlice::new(&b, LittleEndian);
        let _ = Operation::parse(&mut r, Encoding { format: Format::Dwarf32, version: 4, address_size: 8 });
    });
    // 2. skip_attributes: block with len u64::MAX then data1
    try_("skip_attributes_block_max_then_data1", || {
        // abbrev: code 1, tag 0x11, no children, attrs: (DW_AT_name=3, DW_FORM_block=0x09), (DW_AT_language=0x13, DW_FORM_data1=0x0b), 0,0 ; 0
        let abbrev = [1u8, 0x11, 0, 3, 0x09, 0x13, 0x0b, 0, 0, 0];
        let abbrevs = DebugAbbrev::new(&abbrev, LittleEndian).abbreviations(DebugAbbrevOffset(0)).unwrap();
        // unit: len, version 4, abbrev off 0, addr size 8, DIE: code 1, block len = 2^64-1 (10 bytes uleb), data1
        let mut die = vec![1u8]; die.extend_from_slice(&[0xff,0xff,0xff,0xff,0xff,0xff,0xff,0xff,0xff,0x01]); die.push(7);
        let mut unit = vec![]; let len = (2 + 4 + 1 + die.len()) as u32; unit.extend_from_slice(&len.to_le_bytes()); unit.extend_from_slice(&4u16.to_le_bytes()); unit.extend_from_slice(&0u32.to_le_bytes()); unit.push(8); unit.extend_from_slice(&die);
        let di = DebugInfo::new(&unit, LittleEndian);
        let h = di.units().next().unwrap().unwrap();
        let mut raw = h.entries_raw(&abbrevs, None).unwrap();
        let ab = raw.read_abbreviation().unwrap().unwrap();
        let _ = raw.skip_attributes(ab.attributes());
    });
    // 3. line advance i64::MIN
    try_("line_advance_i64_min", || {
        // v4 header
        let mut prog = vec![0x03u8]; // DW_LNS_advance_line
        prog.extend_from_slice(&[0x80,0x80,0x80,0x80,0x80,0x80,0x80,0x80,0x80,0x7f]); // sleb i64::MIN
        prog.push(0x01); // copy
        let mut hdr_rest = vec![1u8, 1, 1, 0xfb, 14, 13]; // min_inst_len, max_ops, default_is_stmt, line_base -5, line_range 14, opcode_base 13
        hdr_rest.extend_from_slice(&[0,1,1,1,1,0,0,0,1,0,0,1]); // std opcode lengths (12)
        hdr_rest.push(0); // include dirs end
        hdr_rest.push(0); // files end
        let mut body = vec![]; body.extend_from_slice(&4u16.to_le_bytes()); body.extend_from_slice(&(hdr_rest.len() as u32).to_le_bytes()); body.extend_from_slice(&hdr_rest); body.extend_from_slice(&prog);
        let mut sec = vec![]; sec.extend_from_slice(&(body.len() as u32).to_le_bytes()); sec.extend_from_slice(&body);
        let dl = DebugLine::new(&sec, LittleEndian);
        let p = dl.program(DebugLineOffset(0), 8, None, None).unwrap();
        let mut rows = p.rows();
        while let Ok(Some(_)) = rows.next_row() {}
    });
    // 4. aranges: many zero tuples -> recursion
    try_("aranges_zero_tuples_1MB", || {
        let n = 1usize << 20;
        let mut sec = vec![]; let len = (2 + 4 + 1 + 1 + 4 + n) as u32; sec.extend_from_slice(&len.to_le_bytes()); sec.extend_from_slice(&2u16.to_le_bytes()); sec.extend_from_slice(&0u32.to_le_bytes()); sec.push(4); sec.push(0); sec.extend_from_slice(&[0;4]); sec.extend(std::iter::repeat(0u8).take(n));
        let ar = DebugAranges::new(&sec, LittleEndian);
        let mut hs = ar.headers();
        let h = hs.next().unwrap().unwrap();
        let mut es = h.entries();
        let _ = es.next();
    });
}
