#!/usr/bin/env python3
"""Probe: extraction-to-Kani of the unwind context machinery (C06 plan B)."""
from vxp import *
import re
cfi = Source('read/cfi.rs')
rd = Source('read/reader.rs')
items = [
 cfi.item(r'^pub trait UnwindContextStorage<'),
 cfi.item(r'^pub struct UnwindContext<T, S = StoreOnHeap>'),
 cfi.item(r'^impl<T, S> UnwindContext<T, S>'),
 cfi.item(r'^struct RegisterRuleMap<T, S = StoreOnHeap>'),
 cfi.item(r'^impl<T, S> Clone for RegisterRuleMap<T, S>'),
 cfi.item(r'^impl<T, S> Default for RegisterRuleMap<T, S>'),
 cfi.item(r'^impl<T, S> RegisterRuleMap<T, S>'),
 cfi.item(r'^impl<T, S> PartialEq for RegisterRuleMap<T, S>'),
 cfi.item(r'^impl<T, S> Eq for RegisterRuleMap<T, S>'),
 cfi.item(r"^pub struct RegisterRuleIter<'iter, T>"),
 cfi.item(r"^impl<'iter, T: ReaderOffset> Iterator for RegisterRuleIter<'iter, T>"),
 cfi.item(r'^pub struct UnwindTableRow<T, S = StoreOnHeap>'),
 cfi.item(r'^impl<T, S> Clone for UnwindTableRow<T, S>'),
 cfi.item(r'^impl<T, S> Default for UnwindTableRow<T, S>'),
 cfi.item(r'^impl<T, S> UnwindTableRow<T, S>'),
 cfi.item(r'^pub enum CfaRule<T: ReaderOffset>'),
 cfi.item(r'^impl<T: ReaderOffset> Default for CfaRule<T>'),
 cfi.item(r'^impl<T: ReaderOffset> CfaRule<T>'),
 cfi.item(r'^pub enum RegisterRule<T: ReaderOffset>'),
 cfi.item(r'^impl<T: ReaderOffset> RegisterRule<T>'),
 cfi.item(r'^pub enum CallFrameInstruction<'),
 cfi.item(r'^pub struct UnwindExpression<'),
 rd.item(r'^pub\(crate\) trait ReaderAddress'),
 rd.item(r'^impl ReaderAddress for u64'),
]
body = '\n\n'.join(items)
# UnwindContext::initialize depends on UnwindTable::new_for_cie + sections: drop for the probe
s, e = method(body, 'initialize')
body = body[:s] + body[e:]
ut = cfi.item(r"^impl<'a, 'ctx, R, S> UnwindTable<'a, 'ctx, R, S>")
ut = drop_methods(ut, ['new', 'new_for_fde', 'new_for_cie', 'next_row', 'into_current_row'])
uts = cfi.item(r"^pub struct UnwindTable<'a, 'ctx, R, S = StoreOnHeap>", with_attrs=False)
uts = uts.replace("instructions: CallFrameInstructionIter<'a, R>,", "instructions: core::marker::PhantomData<&'a R>,")
body += '\n\n' + uts + '\n\n' + ut
body = re.sub(r'#\[derive\(Debug\)\]\s*pub struct UnwindTable', 'pub struct UnwindTable', body)
body = body.replace('#[derive(Clone, PartialEq, Eq)]\npub struct UnwindContext', '#[derive(Clone, PartialEq, Eq)]\npub struct UnwindContext')
# fields private -> make crate-visible for the harness (visibility only)
open('/tmp/scratch/k/src/gen/kcfi.rs', 'w').write(body)
print(len(body.split('\n')), 'lines')
