use gimli::*;
fn uleb(mut v: u64, out: &mut Vec<u8>) { loop { let mut x = (v & 0x7f) as u8; v >>= 7; if v != 0 { x |= 0x80; } out.push(x); if v == 0 { break; } } }
fn rows(sec: &[u8]) -> Vec<(u64, u64, bool)> {
    let dl = DebugLine::new(sec, LittleEndian);
    let p = dl.program(DebugLineOffset(0), 8, None, None).unwrap();
    let mut rows = p.rows();
    let mut out = vec![];
    while let Some((_, r)) = rows.next_row().unwrap() { out.push((r.address(), r.line().map(|l| l.get()).unwrap_or(0), r.end_sequence())); }
    out
}
fn main() {
    // v4 program: set_address 0x1000; copy; advance_pc 4; advance_line +1; copy; set_address 0x2000 (mid-sequence); advance_line +1; copy; advance_pc 4; end_sequence
    let mut prog = vec![];
    let set_addr = |a: u64, p: &mut Vec<u8>| { p.push(0); p.push(9); p.push(2); p.extend_from_slice(&a.to_le_bytes()); };
    set_addr(0x1000, &mut prog);
    prog.push(1);
    prog.push(2); uleb(4, &mut prog);
    prog.push(3); prog.push(1);
    prog.push(1);
    set_addr(0x2000, &mut prog);
    prog.push(3); prog.push(1);
    prog.push(1);
    prog.push(2); uleb(4, &mut prog);
    prog.extend_from_slice(&[0, 1, 1]);
    let mut hdr_rest = vec![1u8, 1, 1, 0xfb, 14, 13];
    hdr_rest.extend_from_slice(&[0,1,1,1,1,0,0,0,1,0,0,1]);
    hdr_rest.extend_from_slice(b"dir\0"); hdr_rest.push(0);
    hdr_rest.extend_from_slice(b"a.c\0"); hdr_rest.extend_from_slice(&[1, 0, 0]); hdr_rest.push(0);
    let mut body = vec![]; body.extend_from_slice(&4u16.to_le_bytes()); body.extend_from_slice(&(hdr_rest.len() as u32).to_le_bytes()); body.extend_from_slice(&hdr_rest); body.extend_from_slice(&prog);
    let mut sec = vec![]; sec.extend_from_slice(&(body.len() as u32).to_le_bytes()); sec.extend_from_slice(&body);
    let before = rows(&sec);
    println!("input rows : {:x?}", before);

    let load = |id: SectionId| -> core::result::Result<EndianSlice<'_, LittleEndian>, gimli::Error> {
        Ok(EndianSlice::new(match id { SectionId::DebugLine => &sec[..], _ => &[] }, LittleEndian))
    };
    let rd = Dwarf::load(load).unwrap();
    let program = rd.debug_line.program(DebugLineOffset(0), 8, None, None).unwrap();
    let mut wd = gimli::write::Dwarf::new();
    let conv = wd.read_line_program(&rd, program, None, None).unwrap();
    let (lp, _files) = conv.convert(&|a| Some(gimli::write::Address::Constant(a))).unwrap();
    let mut out = gimli::write::DebugLine::from(gimli::write::EndianVec::new(LittleEndian));
    let mut ls = gimli::write::LineStringTable::default();
    let mut st = gimli::write::StringTable::default();
    let enc = Encoding { format: Format::Dwarf32, version: 4, address_size: 8 };
    lp.write(&mut out, enc, &mut ls, &mut st).unwrap();
    let after = rows(out.slice());
    println!("output rows: {:x?}", after);
    println!("{}", if before == after { "SAME" } else { "DIFFERENT" });
}
