#!/usr/bin/env python3
"""Probe: write::line generate_row / op_advance with struct projection (R-FIELDS)."""
from vxp import *
import re
wl = Source('write/line.rs')
common = Source('common.rs')
lp = wl.item(r'^pub struct LineProgram \{')
# R-FIELDS: drop fields with types outside the subset that no extracted fn mentions
lp = re.sub(r'\n\s*directories: FnvIndexSet<LineString>,', '', lp)
lp = re.sub(r'\n\s*files: FnvIndexMap<\(LineString, DirectoryId\), FileInfo>,', '', lp)
impl = wl.item(r'^impl LineProgram \{')
keep = ['generate_row', 'op_advance', 'end_sequence', 'begin_sequence', 'set_address', 'in_sequence', 'row']
# keep only the listed methods
parts = []
for n in keep:
    s, e = method(impl, n)
    parts.append(impl[s:e])
impl2 = 'impl LineProgram {\n' + '\n'.join(parts) + '\n}\n'
items = [wl.item(r'^const OPCODE_BASE'), lp, impl2, wl.item(r'^pub struct LineRow \{'), wl.item(r'^enum LineInstruction \{'),
         common.item(r'^pub struct LineEncoding'), common.item(r'^pub struct Encoding'), common.item(r'^pub enum Format')]
irow = wl.item(r'^impl LineRow \{')
s, e = method(irow, 'initial_state')
items.append('impl LineRow {\n' + irow[s:e] + '\n}\n')
body = '\n\n'.join(clean(x) for x in items)
# contracts
body = splice(body, 'op_advance', ret='res', requires=[
    'self.row.address_offset >= self.prev_row.address_offset',
    'self.line_encoding.minimum_instruction_length != 0',
])
prelude = r'''
#![allow(unused, non_upper_case_globals, non_camel_case_types)]
use vstd::prelude::*;
verus! {
global size_of usize == 8;
pub fn verif_assert(b: bool) requires b {}
#[derive(Clone, Copy, PartialEq, Eq, Debug)]
pub enum Address { Constant(u64), Symbol { symbol: usize, addend: i64 } }
pub mod id { use vstd::prelude::*;
  #[derive(Clone, Copy, PartialEq, Eq, Debug)]
  pub struct FileId(pub usize);
  impl FileId { pub fn initial_state(version: u16) -> Self { FileId(1) } }
}
pub use id::FileId;
'''
open('wline.rs', 'w').write(prelude + body + '\n}\nfn main(){}\n')
