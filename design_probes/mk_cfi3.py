#!/usr/bin/env python3
"""Probe: C06 plan A - UnwindTable::evaluate verbatim in Verus, UnwindContext accessors as contracts."""
from vxp import *
import re
cfi = Source('read/cfi.rs')
items = [
 cfi.item(r'^pub enum CfaRule<T: ReaderOffset>'),
 cfi.item(r'^pub enum RegisterRule<T: ReaderOffset>'),
 cfi.item(r'^pub enum CallFrameInstruction<'),
 cfi.item(r'^pub struct UnwindExpression<'),
 cfi.item(r'^pub struct UnwindTableRow<T, S = StoreOnHeap>', with_attrs=False),
]
body = '\n\n'.join(clean(x) for x in items)
ut = cfi.item(r"^impl<'a, 'ctx, R, S> UnwindTable<'a, 'ctx, R, S>")
ut = drop_methods(ut, ['new', 'new_for_fde', 'new_for_cie', 'next_row', 'into_current_row'])
uts = cfi.item(r"^pub struct UnwindTable<'a, 'ctx, R, S = StoreOnHeap>", with_attrs=False)
uts = uts.replace("instructions: CallFrameInstructionIter<'a, R>,", "instructions: core::marker::PhantomData<&'a R>,")   # R-FIELDS
uts = uts.replace("pub struct UnwindTable<'a, 'ctx, R, S = StoreOnHeap>", "#[verifier::reject_recursive_types(R)]\n#[verifier::reject_recursive_types(S)]\npub struct UnwindTable<'a, 'ctx, R, S = StoreOnHeap>")
ut = splice(clean(ut), 'evaluate', ret='res',
    requires=['old(self).ctx.wf()', 'old(self).address_size == 1 || old(self).address_size == 2 || old(self).address_size == 4 || old(self).address_size == 8'],
    ensures=[
      'final(self).ctx.wf()',
      'final(self).ctx.initial() == old(self).ctx.initial()',
      # [C06:offset] DW_CFA_offset: rule(reg) := offset(N * data_align), nothing else in the row changes, row not completed
      'instruction matches CallFrameInstruction::Offset { register, factored_offset } ==> (res matches Ok(done) ==> !done && final(self).ctx.stack().len() == old(self).ctx.stack().len() && final(self).ctx.top().registers.view() == old(self).ctx.top().registers.view().insert(register, RegisterRule::Offset(wrap_i64(factored_offset as i64 as int * old(self).data_alignment_factor.0 as int))))',
      # [C06:set_loc] going backwards is the specific error
      'instruction matches CallFrameInstruction::SetLoc { address } ==> (address < old(self).ctx.top().start_address ==> res == Err::<bool, Error>(Error::InvalidCfiSetLoc(address))) && (address >= old(self).ctx.top().start_address ==> res == Ok::<bool, Error>(true) && final(self).ctx.top().end_address == address && final(self).next_start_address == address)',
      # [C06:advance] advance_loc: start + delta*caf, checked at the address size
      'instruction matches CallFrameInstruction::AdvanceLoc { delta } ==> (res is Err <==> old(self).ctx.top().start_address + wrap_u64(delta as int * old(self).code_alignment_factor.0 as int) > ones(old(self).address_size))',
      # [C06:restore-cie] restore while evaluating the CIE is invalid
      'instruction matches CallFrameInstruction::Restore { register } ==> (old(self).ctx.initial() is None ==> res == Err::<bool, Error>(Error::CfiInstructionInInvalidContext))',
      # [C06:remember] remember_state pushes a copy or reports StackFull
      'instruction is RememberState ==> (res is Ok ==> final(self).ctx.stack() == old(self).ctx.stack().push(old(self).ctx.top()))',
    ])
body += '\n\n' + clean(uts) + '\n\n' + ut
body = body.replace("pub struct UnwindTable<'a, 'ctx, R, S = StoreOnHeap>\nwhere\n    R: Reader,", "pub struct UnwindTable<'a, 'ctx, R, S = StoreOnHeap>\nwhere\n    R: Reader + 'a,")
body = body.replace("use crate::CallFrameInstruction::*;", "use crate::CallFrameInstruction::*;")
body = body.replace('pub struct UnwindTableRow<T, S = StoreOnHeap>', '#[verifier::reject_recursive_types(T)]\n#[verifier::reject_recursive_types(S)]\npub struct UnwindTableRow<T, S = StoreOnHeap>')
for ty in ['CfaRule', 'RegisterRule', 'CallFrameInstruction', 'UnwindExpression']:
    body = re.sub(r'(pub (enum|struct) %s<)' % ty, r'#[verifier::reject_recursive_types(T)]\n\1', body, count=1)

prelude = r'''
#![allow(unused, non_upper_case_globals, non_camel_case_types)]
use vstd::prelude::*;
verus! {
global size_of usize == 8;
pub fn verif_assert(b: bool) requires b {}
#[derive(Clone, Copy, Debug, PartialEq, Eq)]
pub enum Error { StackFull, PopWithEmptyStack, TooManyRegisterRules, CfiInstructionInInvalidContext, InvalidCfiSetLoc(u64), AddressOverflow }
pub type Result<T> = core::result::Result<T, Error>;
#[derive(Clone, Copy, PartialEq, Eq, Debug)]
pub struct Register(pub u16);
pub struct AArch64;
impl AArch64 { pub const RA_SIGN_STATE: Register = Register(34); }
pub struct StoreOnHeap;
pub trait ReaderOffset: Sized + Copy + core::fmt::Debug + PartialEq + Eq {}
pub trait Reader: Sized { type Offset: ReaderOffset; }
pub trait UnwindContextStorage<T: ReaderOffset>: Sized {}
impl<T: ReaderOffset> UnwindContextStorage<T> for StoreOnHeap {}
use core::fmt::Debug;
pub open spec fn ones(size: u8) -> u64 { if size == 1 { 0xff } else if size == 2 { 0xffff } else if size == 4 { 0xffff_ffff } else { 0xffff_ffff_ffff_ffff } }
pub trait ReaderAddress: Sized {
    fn add_sized(self, length: u64, size: u8) -> Result<Self>;
}
impl ReaderAddress for u64 {
    #[verifier::external_body]
    fn add_sized(self, length: u64, size: u8) -> (res: Result<Self>)
        ensures res matches Ok(a) ==> a == self + length && a <= ones(size),
                res is Err <==> self + length > ones(size)
    { unimplemented!() }
}

// ---- model of core::num::Wrapping (R-WRAP)
#[derive(Clone, Copy, PartialEq, Eq, Debug)]
pub struct Wrapping<T>(pub T);
pub open spec fn wrap_u64(x: int) -> u64 { (x % 0x1_0000_0000_0000_0000int) as u64 }
pub open spec fn wrap_i64(x: int) -> i64 { let m = x % 0x1_0000_0000_0000_0000int; if m >= 0x8000_0000_0000_0000int { (m - 0x1_0000_0000_0000_0000int) as i64 } else { m as i64 } }
impl vstd::std_specs::ops::MulSpecImpl<Wrapping<u64>> for Wrapping<u64> {
    open spec fn obeys_mul_spec() -> bool { true }
    open spec fn mul_req(self, rhs: Wrapping<u64>) -> bool { true }
    open spec fn mul_spec(self, rhs: Wrapping<u64>) -> Wrapping<u64> { Wrapping(wrap_u64(self.0 as int * rhs.0 as int)) }
}
impl core::ops::Mul for Wrapping<u64> { type Output = Wrapping<u64>; #[verifier::external_body] fn mul(self, rhs: Wrapping<u64>) -> Wrapping<u64> { Wrapping(self.0.wrapping_mul(rhs.0)) } }
impl vstd::std_specs::ops::MulSpecImpl<Wrapping<i64>> for Wrapping<i64> {
    open spec fn obeys_mul_spec() -> bool { true }
    open spec fn mul_req(self, rhs: Wrapping<i64>) -> bool { true }
    open spec fn mul_spec(self, rhs: Wrapping<i64>) -> Wrapping<i64> { Wrapping(wrap_i64(self.0 as int * rhs.0 as int)) }
}
impl core::ops::Mul for Wrapping<i64> { type Output = Wrapping<i64>; #[verifier::external_body] fn mul(self, rhs: Wrapping<i64>) -> Wrapping<i64> { Wrapping(self.0.wrapping_mul(rhs.0)) } }

// ---- abstract unwind context: contracts of the accessors used by evaluate (checked on the real code by Kani K-UCTX)
#[verifier::reject_recursive_types(T)]
#[verifier::reject_recursive_types(S)]
#[verifier::external_body]
pub struct RegisterRuleMap<T: ReaderOffset, S: UnwindContextStorage<T> = StoreOnHeap> { x: core::marker::PhantomData<(T,S)> }
impl<T: ReaderOffset, S: UnwindContextStorage<T>> RegisterRuleMap<T, S> {
    pub uninterp spec fn view(&self) -> Map<Register, RegisterRule<T>>;
}
impl<T: ReaderOffset, S: UnwindContextStorage<T>> UnwindTableRow<T, S> {
    #[verifier::external_body]
    fn register(&self, register: Register) -> (r: Option<RegisterRule<T>>)
        ensures r == (if self.registers.view().contains_key(register) { Some(self.registers.view()[register]) } else { None })
    { unimplemented!() }
}
#[verifier::reject_recursive_types(T)]
#[verifier::reject_recursive_types(S)]
#[verifier::external_body]
pub struct UnwindContext<T: ReaderOffset, S: UnwindContextStorage<T> = StoreOnHeap> { x: core::marker::PhantomData<(T,S)> }
impl<T: ReaderOffset, S: UnwindContextStorage<T>> UnwindContext<T, S> {
    uninterp spec fn stack(&self) -> Seq<UnwindTableRow<T, S>>;
    uninterp spec fn initial(&self) -> Option<Map<Register, RegisterRule<T>>>;   // None while evaluating the CIE
    spec fn wf(&self) -> bool { self.stack().len() >= 1 }
    spec fn top(&self) -> UnwindTableRow<T, S> { self.stack().last() }
    spec fn same_but_top(&self, o: &Self, row: UnwindTableRow<T, S>) -> bool { self.stack() == o.stack().drop_last().push(row) && self.initial() == o.initial() }
    #[verifier::external_body] fn start_address(&self) -> (r: u64) requires self.wf() ensures r == self.top().start_address { unimplemented!() }
    #[verifier::external_body] fn set_start_address(&mut self, a: u64) requires old(self).wf()
        ensures final(self).same_but_top(old(self), UnwindTableRow { start_address: a, ..old(self).top() }) { unimplemented!() }
    #[verifier::external_body] fn row(&self) -> (r: &UnwindTableRow<T, S>) requires self.wf() ensures *r == self.top() { unimplemented!() }
    #[verifier::external_body] fn row_mut(&mut self) -> (r: &mut UnwindTableRow<T, S>) requires old(self).wf()
        ensures *r == old(self).top(), final(self).same_but_top(old(self), *final(r)) { unimplemented!() }
    #[verifier::external_body] fn set_cfa(&mut self, cfa: CfaRule<T>) requires old(self).wf()
        ensures final(self).same_but_top(old(self), UnwindTableRow { cfa: cfa, ..old(self).top() }) { unimplemented!() }
    #[verifier::external_body] fn cfa_mut(&mut self) -> (r: &mut CfaRule<T>) requires old(self).wf()
        ensures *r == old(self).top().cfa, final(self).same_but_top(old(self), UnwindTableRow { cfa: *final(r), ..old(self).top() }) { unimplemented!() }
    #[verifier::external_body] fn set_register_rule(&mut self, register: Register, rule: RegisterRule<T>) -> (res: Result<()>) requires old(self).wf()
        ensures res is Ok ==> final(self).wf() && final(self).stack().len() == old(self).stack().len() && final(self).top().registers.view() == old(self).top().registers.view().insert(register, rule),
                res is Err ==> final(self).stack() == old(self).stack(),
                final(self).initial() == old(self).initial() { unimplemented!() }
    #[verifier::external_body] fn clear_register_rule(&mut self, register: Register) -> (res: Result<()>) requires old(self).wf()
        ensures res is Ok, final(self).wf(), final(self).stack().len() == old(self).stack().len(), final(self).top().registers.view() == old(self).top().registers.view().remove(register), final(self).initial() == old(self).initial() { unimplemented!() }
    #[verifier::external_body] fn get_initial_rule(&self, register: Register) -> (r: Option<Option<RegisterRule<T>>>)
        ensures r == (match self.initial() { None => None, Some(m) => Some(if m.contains_key(register) { Some(m[register]) } else { None }) }) { unimplemented!() }
    #[verifier::external_body] fn push_row(&mut self) -> (res: Result<()>) requires old(self).wf()
        ensures res is Ok ==> final(self).stack() == old(self).stack().push(old(self).top()), res is Err ==> final(self).stack() == old(self).stack(), final(self).initial() == old(self).initial() { unimplemented!() }
    #[verifier::external_body] fn pop_row(&mut self) -> (res: Result<()>) requires old(self).wf()
        ensures res is Ok ==> old(self).stack().len() >= 2 && final(self).stack() == old(self).stack().drop_last(), res is Err ==> final(self).stack() == old(self).stack(), final(self).initial() == old(self).initial() { unimplemented!() }
}
'''
open('cfi3.rs','w').write(prelude + body + '\n}\nfn main(){}\n')
