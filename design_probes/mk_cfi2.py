#!/usr/bin/env python3
"""Probe: UnwindContext / UnwindTable::evaluate with modelled ArrayVec + RegisterRuleMap (front-end acceptance)."""
from vxp import *
import re
cfi = Source('read/cfi.rs')
rd = Source('read/reader.rs')
rmod = Source('read/mod.rs')
common = Source('common.rs')

items = [
 cfi.item(r'^pub trait UnwindContextStorage<'),
 cfi.item(r'^pub struct UnwindContext<T, S = StoreOnHeap>'),
 cfi.item(r'^impl<T, S> UnwindContext<T, S>'),
 cfi.item(r'^pub struct UnwindTableRow<T, S = StoreOnHeap>'),
 cfi.item(r'^impl<T, S> Default for UnwindTableRow<T, S>'),
 cfi.item(r'^impl<T, S> Clone for UnwindTableRow<T, S>'),
 drop_methods(cfi.item(r'^impl<T, S> UnwindTableRow<T, S>'), ['registers']),
 cfi.item(r'^pub enum CfaRule<T: ReaderOffset>'),
 cfi.item(r'^impl<T: ReaderOffset> Default for CfaRule<T>'),
 cfi.item(r'^impl<T: ReaderOffset> CfaRule<T>'),
 cfi.item(r'^pub enum RegisterRule<T: ReaderOffset>'),
 cfi.item(r'^pub enum CallFrameInstruction<'),
 cfi.item(r'^pub struct UnwindExpression<'),
]
body = '\n\n'.join(clean(x) for x in items)
# drop methods that need the section/iterators for this probe
body = drop_methods_in = body
ut = cfi.item(r"^impl<'a, 'ctx, R, S> UnwindTable<'a, 'ctx, R, S>")
ut = drop_methods(ut, ['new', 'new_for_fde', 'new_for_cie', 'next_row', 'into_current_row'])
uts = cfi.item(r"^pub struct UnwindTable<'a, 'ctx, R, S = StoreOnHeap>")
uts = uts.replace("instructions: CallFrameInstructionIter<'a, R>,", "instructions: core::marker::PhantomData<&'a R>,")
body += '\n\n' + clean(uts) + '\n\n' + clean(ut)
# UnwindContext::initialize needs UnwindTable::new_for_cie etc -> drop for probe
body = re.sub(r'fn initialize<Section, R>\(', 'fn initialize_DROPPED<Section, R>(', body)
s, e = method(body, 'initialize_DROPPED')
body = body[:s] + body[e:]

prelude = r'''
#![allow(unused, non_upper_case_globals, non_camel_case_types)]
use vstd::prelude::*;
verus! {
global size_of usize == 8;
pub fn verif_assert(b: bool) requires b {}
#[derive(Clone, Copy, Debug)]
pub enum Error { StackFull, PopWithEmptyStack, TooManyRegisterRules, CfiInstructionInInvalidContext, InvalidCfiSetLoc(u64), AddressOverflow }
pub type Result<T> = core::result::Result<T, Error>;
#[derive(Clone, Copy, PartialEq, Eq, Debug)]
pub struct Register(pub u16);
pub struct AArch64;
impl AArch64 { pub const RA_SIGN_STATE: Register = Register(34); }
pub struct StoreOnHeap;
pub trait ReaderOffset: Sized + Copy + core::fmt::Debug + PartialEq + Eq {}
pub trait Reader: Sized { type Offset: ReaderOffset; }
use core::fmt::Debug;
pub trait ReaderAddress: Sized {
    fn add_sized(self, length: u64, size: u8) -> Result<Self>;
}
impl ReaderAddress for u64 {
    #[verifier::external_body]
    fn add_sized(self, length: u64, size: u8) -> Result<Self> { unimplemented!() }
}

// ---- model of core::num::Wrapping (R-WRAP)
#[derive(Clone, Copy, PartialEq, Eq, Debug)]
pub struct Wrapping<T>(pub T);
impl vstd::std_specs::ops::MulSpecImpl<Wrapping<u64>> for Wrapping<u64> {
    open spec fn obeys_mul_spec() -> bool { true }
    open spec fn mul_req(self, rhs: Wrapping<u64>) -> bool { true }
    open spec fn mul_spec(self, rhs: Wrapping<u64>) -> Wrapping<u64> { Wrapping(((self.0 as int * rhs.0 as int) % 0x1_0000_0000_0000_0000int) as u64) }
}
impl core::ops::Mul for Wrapping<u64> { type Output = Wrapping<u64>; fn mul(self, rhs: Wrapping<u64>) -> Wrapping<u64> { Wrapping(self.0.wrapping_mul(rhs.0)) } }
impl vstd::std_specs::ops::MulSpecImpl<Wrapping<i64>> for Wrapping<i64> {
    open spec fn obeys_mul_spec() -> bool { true }
    open spec fn mul_req(self, rhs: Wrapping<i64>) -> bool { true }
    open spec fn mul_spec(self, rhs: Wrapping<i64>) -> Wrapping<i64> { Wrapping(wrap_i64(self.0 as int * rhs.0 as int)) }
}
pub open spec fn wrap_i64(x: int) -> i64 { let m = x % 0x1_0000_0000_0000_0000int; if m >= 0x8000_0000_0000_0000int { (m - 0x1_0000_0000_0000_0000int) as i64 } else { m as i64 } }
impl core::ops::Mul for Wrapping<i64> { type Output = Wrapping<i64>; fn mul(self, rhs: Wrapping<i64>) -> (r: Wrapping<i64>) { proof { admit(); } Wrapping(self.0.wrapping_mul(rhs.0)) } }

// ---- model of read::util::ArrayVec (contract checked on the real unsafe code by Kani K-AVEC)
pub trait ArrayLike { type Item; spec fn cap() -> nat; }
#[verifier::reject_recursive_types(A)]
#[verifier::external_body]
pub struct ArrayVec<A: ArrayLike> { x: core::marker::PhantomData<A> }
pub struct CapacityFull;
impl<A: ArrayLike> ArrayVec<A> {
    pub uninterp spec fn view(&self) -> Seq<A::Item>;
    #[verifier::external_body] pub fn new() -> (r: Self) ensures r.view().len() == 0 { unimplemented!() }
    #[verifier::external_body] pub fn clear(&mut self) ensures final(self).view().len() == 0 { unimplemented!() }
    #[verifier::external_body] pub fn try_push(&mut self, value: A::Item) -> (r: core::result::Result<(), CapacityFull>)
        ensures old(self).view().len() < A::cap() ==> r is Ok && final(self).view() == old(self).view().push(value),
                old(self).view().len() >= A::cap() ==> r is Err && final(self).view() == old(self).view() { unimplemented!() }
    #[verifier::external_body] pub fn try_insert(&mut self, index: usize, element: A::Item) -> (r: core::result::Result<(), CapacityFull>)
        requires index <= old(self).view().len()
        ensures old(self).view().len() < A::cap() ==> r is Ok && final(self).view() == old(self).view().insert(index as int, element),
                old(self).view().len() >= A::cap() ==> r is Err && final(self).view() == old(self).view() { unimplemented!() }
    #[verifier::external_body] pub fn pop(&mut self) -> (r: Option<A::Item>)
        ensures old(self).view().len() == 0 ==> r is None && final(self).view() == old(self).view(),
                old(self).view().len() > 0 ==> r == Some(old(self).view().last()) && final(self).view() == old(self).view().drop_last() { unimplemented!() }
    #[verifier::external_body] pub fn len(&self) -> (r: usize) ensures r == self.view().len() { unimplemented!() }
    #[verifier::external_body] pub fn is_empty(&self) -> (r: bool) ensures r == (self.view().len() == 0) { unimplemented!() }
    #[verifier::external_body] pub fn last(&self) -> (r: Option<&A::Item>) ensures self.view().len() == 0 ==> r is None, self.view().len() > 0 ==> r == Some(&self.view().last()) { unimplemented!() }
    #[verifier::external_body] pub fn last_mut(&mut self) -> (r: Option<&mut A::Item>) { unimplemented!() }
}
impl<A: ArrayLike> Default for ArrayVec<A> { #[verifier::external_body] fn default() -> Self { unimplemented!() } }

// ---- model of RegisterRuleMap (real get/set/clear use iterator adapters; checked by Kani K-RRMAP)
#[verifier::reject_recursive_types(T)]
#[verifier::reject_recursive_types(S)]
#[verifier::external_body]
pub struct RegisterRuleMap<T: ReaderOffset, S: UnwindContextStorage<T>> { x: core::marker::PhantomData<(T,S)> }
impl<T: ReaderOffset, S: UnwindContextStorage<T>> RegisterRuleMap<T, S> {
    #[verifier::external_body] pub fn is_default(&self) -> bool { unimplemented!() }
    #[verifier::external_body] pub fn get(&self, register: Register) -> Option<RegisterRule<T>> { unimplemented!() }
    #[verifier::external_body] pub fn clear(&mut self, register: Register) -> Result<()> { unimplemented!() }
    #[verifier::external_body] pub fn set(&mut self, register: Register, rule: RegisterRule<T>) -> Result<()> { unimplemented!() }
}
impl<T: ReaderOffset, S: UnwindContextStorage<T>> Default for RegisterRuleMap<T, S> { #[verifier::external_body] fn default() -> Self { unimplemented!() } }
impl<T: ReaderOffset, S: UnwindContextStorage<T>> Clone for RegisterRuleMap<T, S> { #[verifier::external_body] fn clone(&self) -> Self { unimplemented!() } }
'''
open('cfi2.rs','w').write(prelude + body + '\n}\nfn main(){}\n')
