use vstd::prelude::*;
verus! {
pub mod constants {
    use vstd::prelude::*;
    /*CONSTS*/
}
#[derive(Clone, Copy, Debug)]
pub enum Error { UnexpectedEof(u64), BadUnsignedLeb128, BadSignedLeb128, UnsupportedOffset, UnsupportedAddressSize(u8), UnsupportedRegister(u64),
  UnknownPointerEncoding(constants::DwEhPe), CannotParseOmitPointerEncoding, PcRelativePointerButSectionBaseIsUndefined, TextRelativePointerButTextBaseIsUndefined,
  DataRelativePointerButDataBaseIsUndefined, FuncRelativePointerInBadContext, UnsupportedPointerEncoding(constants::DwEhPe), UnsupportedIndirectPointer,
  UnknownCallFrameInstruction(constants::DwCfa), AddressOverflow }
pub type Result<T> = core::result::Result<T, Error>;
#[derive(Clone, Copy, PartialEq, Eq, Debug)]
pub enum Format { Dwarf64 = 8, Dwarf32 = 4 }
#[derive(Clone, Copy, PartialEq, Eq, Debug)]
pub enum Vendor { Default, AArch64 }
#[derive(Clone, Copy, PartialEq, Eq, Debug)]
pub struct Register(pub u16);
impl Register {
    pub fn from_u64(x: u64) -> (r: Result<Register>) { if x > 0xffff { Err(Error::UnsupportedRegister(x)) } else { Ok(Register(x as u16)) } }
}

pub assume_specification<T, E, U, F: FnOnce(T) -> core::result::Result<U, E>>[core::result::Result::<T,E>::and_then](r: core::result::Result<T,E>, op: F) -> (res: core::result::Result<U,E>)
  requires r is Ok ==> op.requires((r->Ok_0,)),
  ensures match r { Ok(v) => op.ensures((v,), res), Err(e) => res == Err::<U,E>(e) };

pub fn verif_assert(b: bool) requires b {}
pub fn verif_unreachable() -> ! requires false { loop decreases 0nat {} }

pub trait ReaderOffset: Sized + Copy + core::fmt::Debug + PartialEq + Eq {
    fn from_u8(offset: u8) -> Self;
    fn from_u16(offset: u16) -> Self;
    fn from_u32(offset: u32) -> Self;
    fn from_u64(offset: u64) -> Result<Self>;
    fn into_u64(self) -> u64;
}

use crate::constants::DwEhPe;
/*RADDR*/

pub trait Reader: Sized + core::fmt::Debug + Clone {
    type Offset: ReaderOffset;
    spec fn bytes(&self) -> Seq<u8>;
    fn is_empty(&self) -> (r: bool) ensures r == (self.bytes().len() == 0);
    fn empty(&mut self) ensures final(self).bytes().len() == 0;
    fn offset_from(&self, base: &Self) -> Self::Offset;
    fn skip(&mut self, len: Self::Offset) -> (r: Result<()>) ensures final(self).bytes().len() <= old(self).bytes().len();
    fn read_u8(&mut self) -> (r: Result<u8>) ensures final(self).bytes().len() <= old(self).bytes().len(), r is Ok ==> final(self).bytes().len() < old(self).bytes().len();
    fn read_i8(&mut self) -> (r: Result<i8>) ensures final(self).bytes().len() <= old(self).bytes().len();
    fn read_u16(&mut self) -> (r: Result<u16>) ensures final(self).bytes().len() <= old(self).bytes().len();
    fn read_i16(&mut self) -> (r: Result<i16>) ensures final(self).bytes().len() <= old(self).bytes().len();
    fn read_u32(&mut self) -> (r: Result<u32>) ensures final(self).bytes().len() <= old(self).bytes().len();
    fn read_i32(&mut self) -> (r: Result<i32>) ensures final(self).bytes().len() <= old(self).bytes().len();
    fn read_u64(&mut self) -> (r: Result<u64>) ensures final(self).bytes().len() <= old(self).bytes().len();
    fn read_i64(&mut self) -> (r: Result<i64>) ensures final(self).bytes().len() <= old(self).bytes().len();
    fn read_uleb128(&mut self) -> (r: Result<u64>) ensures final(self).bytes().len() <= old(self).bytes().len();
    fn read_sleb128(&mut self) -> (r: Result<i64>) ensures final(self).bytes().len() <= old(self).bytes().len();
    fn read_address(&mut self, address_size: u8) -> (r: Result<u64>) ensures final(self).bytes().len() <= old(self).bytes().len();
}

/*BODY*/
}
fn main(){}
