#!/usr/bin/env python3
"""Probe: C07 - Evaluation::evaluate_one_operation / evaluate_internal verbatim with ArrayVec + Value models."""
from vxp import *
import re
op = Source('read/op.rs')
items = [
 op.item(r'^pub enum DieReference<'),
 op.item(r'^pub enum Operation<R, Offset'),
 op.item(r'^enum OperationEvaluationResult<'),
 op.item(r'^pub enum Location<R, Offset'),
 op.item(r'^pub struct Piece<R, Offset'),
 op.item(r'^fn compute_pc<'),
 op.item(r'^enum EvaluationState<'),
 op.item(r'^enum EvaluationWaiting<'),
 op.item(r'^pub enum EvaluationResult<'),
 op.item(r'^pub struct Expression<R: Reader>'),
 op.item(r'^pub trait EvaluationStorage<'),
 op.item(r'^pub struct Evaluation<R: Reader, S: EvaluationStorage<R> = StoreOnHeap>'),
]
body = '\n\n'.join(clean(x) for x in items)
impl = op.item(r'^impl<R: Reader, S: EvaluationStorage<R>> Evaluation<R, S> \{')
keep = ['pop', 'push', 'evaluate_one_operation', 'end_of_expression', 'evaluate_internal']
parts = []
for n in keep:
    s, e = method(impl, n)
    parts.append(impl[s:e])
body += '\n\nimpl<R: Reader, S: EvaluationStorage<R>> Evaluation<R, S> {\n' + clean('\n'.join(parts)) + '\n}\n'
# Operation::parse as contract only
body += '''
impl<R, Offset> Operation<R, Offset> where R: Reader<Offset = Offset>, Offset: ReaderOffset {
    #[verifier::external_body]
    pub fn parse(bytes: &mut R, encoding: Encoding) -> (res: Result<Operation<R, Offset>>)
        ensures res is Ok ==> final(bytes).bytes().len() < old(bytes).bytes().len()
    { unimplemented!() }
}
'''
for ty, ps in [('DieReference', 'T'), ('Operation', 'R,Offset'), ('OperationEvaluationResult', 'R'), ('Location', 'R,Offset'), ('Piece', 'R,Offset'),
               ('EvaluationState', 'R'), ('EvaluationWaiting', 'R'), ('EvaluationResult', 'R'), ('Expression', 'R'), ('Evaluation', 'R,S')]:
    attrs = ''.join('#[verifier::reject_recursive_types(%s)]\n' % p for p in ps.split(','))
    body = re.sub(r'((pub )?(enum|struct) %s<)' % ty, attrs + r'\1', body, count=1)

prelude = r'''
#![allow(unused, non_upper_case_globals, non_camel_case_types)]
use vstd::prelude::*;
verus! {
global size_of usize == 8;
pub fn verif_assert(b: bool) requires b {}
use core::mem;
#[derive(Clone, Copy, Debug, PartialEq, Eq)]
pub enum Error { StackFull, NotEnoughStackItems, InvalidDerefSize(u8), BadBranchTarget(u64), InvalidPushObjectAddress, UnsupportedEvaluation, TooManyIterations, InvalidPiece, InvalidExpressionTerminator(u64),
  TypeMismatch, DivisionByZero, IntegralTypeRequired, UnsupportedTypeOperation, InvalidShiftExpression, UnexpectedEof(u64), UnsupportedOffset }
pub type Result<T> = core::result::Result<T, Error>;
#[derive(Clone, Copy, PartialEq, Eq, Debug)] pub struct Register(pub u16);
#[derive(Clone, Copy, PartialEq, Eq, Debug)] pub enum Format { Dwarf64 = 8, Dwarf32 = 4 }
#[derive(Clone, Copy, PartialEq, Eq, Debug)] pub struct Encoding { pub address_size: u8, pub format: Format, pub version: u16 }
#[derive(Clone, Copy, PartialEq, Eq, Debug)] pub struct UnitOffset<T = usize>(pub T);
#[derive(Clone, Copy, PartialEq, Eq, Debug)] pub struct DebugInfoOffset<T = usize>(pub T);
#[derive(Clone, Copy, PartialEq, Eq, Debug)] pub struct DebugAddrIndex<T = usize>(pub T);
pub struct StoreOnHeap;
pub trait ReaderOffset: Sized + Copy + core::fmt::Debug + PartialEq + Eq + PartialOrd {
    spec fn as_nat(self) -> nat;
    fn from_i16(offset: i16) -> Self;
    fn into_u64(self) -> (r: u64) ensures r == self.as_nat();
    fn wrapping_add(self, other: Self) -> Self;
}
pub trait Reader: Sized + core::fmt::Debug + Clone {
    type Offset: ReaderOffset;
    spec fn bytes(&self) -> Seq<u8>;
    fn len(&self) -> (r: Self::Offset) ensures r.as_nat() == self.bytes().len();
    fn is_empty(&self) -> (r: bool) ensures r == (self.bytes().len() == 0);
    fn offset_from(&self, base: &Self) -> Self::Offset;
    fn skip(&mut self, len: Self::Offset) -> (r: Result<()>);
}

// ---- model of read::util::ArrayVec (K-AVEC)
pub trait ArrayLike { type Item; spec fn cap() -> nat; }
#[verifier::reject_recursive_types(A)]
#[verifier::external_body]
pub struct ArrayVec<A: ArrayLike> { x: core::marker::PhantomData<A> }
#[derive(Debug)]
pub struct CapacityFull;
impl<A: ArrayLike> ArrayVec<A> {
    pub uninterp spec fn view(&self) -> Seq<A::Item>;
    #[verifier::external_body] pub fn try_push(&mut self, value: A::Item) -> (r: core::result::Result<(), CapacityFull>)
        ensures old(self).view().len() < A::cap() ==> r is Ok && final(self).view() == old(self).view().push(value),
                old(self).view().len() >= A::cap() ==> r is Err && final(self).view() == old(self).view() { unimplemented!() }
    #[verifier::external_body] pub fn pop(&mut self) -> (r: Option<A::Item>)
        ensures old(self).view().len() == 0 ==> r is None && final(self).view() == old(self).view(),
                old(self).view().len() > 0 ==> r == Some(old(self).view().last()) && final(self).view() == old(self).view().drop_last() { unimplemented!() }
    #[verifier::external_body] pub fn len(&self) -> (r: usize) ensures r == self.view().len() { unimplemented!() }
    #[verifier::external_body] pub fn is_empty(&self) -> (r: bool) ensures r == (self.view().len() == 0) { unimplemented!() }
}

// ---- Value: contract-only (real arithmetic proved by Kani K-VALUE)
#[derive(Clone, Copy, Debug, PartialEq)]
pub struct Value { x: u64 }
#[derive(Clone, Copy, Debug, PartialEq, Eq)]
pub enum ValueType { Generic }
impl Value {
    #[verifier::external_body] pub fn generic(v: u64) -> Value { unimplemented!() }
}
'''
open('op2.rs','w').write(prelude + body + '\n}\nfn main(){}\n')
print(len(body.split('\n')))
