use gimli::*;
use std::panic::catch_unwind;
fn try_<F: FnOnce() + std::panic::UnwindSafe>(name: &str, f: F) {
    let r = catch_unwind(f);
    println!("{name}: {}", if r.is_err() { "PANIC" } else { "ok" });
}
fn uleb(mut v: u64, out: &mut Vec<u8>) { loop { let mut x = (v & 0x7f) as u8; v >>= 7; if v != 0 { x |= 0x80; } out.push(x); if v == 0 { break; } } }
fn main() {
    std::panic::set_hook(Box::new(|i| { eprintln!("  panic: {}", i); }));
    // F5: die_ranges low_pc + high_pc(udata) overflow
    try_("die_ranges_begin_plus_size", || {
        // abbrev 1: DW_TAG_compile_unit(0x11), no children, DW_AT_low_pc(0x11) DW_FORM_addr(0x01), DW_AT_high_pc(0x12) DW_FORM_udata(0x0f)
        let abbrev = vec![1u8, 0x11, 0, 0x11, 0x01, 0x12, 0x0f, 0, 0, 0];
        let mut die = vec![1u8];
        die.extend_from_slice(&0xffff_ffff_ffff_fff0u64.to_le_bytes());
        uleb(0x100, &mut die);
        let mut unit = vec![]; let len = (2 + 4 + 1 + die.len()) as u32;
        unit.extend_from_slice(&len.to_le_bytes()); unit.extend_from_slice(&4u16.to_le_bytes()); unit.extend_from_slice(&0u32.to_le_bytes()); unit.push(8); unit.extend_from_slice(&die);
        let load = |id: SectionId| -> core::result::Result<EndianSlice<'_, LittleEndian>, gimli::Error> {
            Ok(EndianSlice::new(match id { SectionId::DebugInfo => &unit[..], SectionId::DebugAbbrev => &abbrev[..], _ => &[] }, LittleEndian))
        };
        let dwarf = Dwarf::load(load).unwrap();
        let h = dwarf.units().next().unwrap().unwrap();
        let u = dwarf.unit(h).unwrap();
        let mut c = u.entries();
        let e = c.next_dfs().unwrap().unwrap().clone();
        let _ = dwarf.die_ranges(&u, &e).map(|mut r| r.next());
    });
    // F7/F8: convert a .debug_frame CIE with code_alignment_factor 256 and an FDE with advance_loc + offset instr, then write
    try_("cfi_convert_caf_256", || {
        // CIE v1: length, id=0xffffffff, version 1, aug "", caf uleb 256, daf sleb 1? use 0 -> daf=0, ra reg 0, instrs: nop padding
        let mut cie_body = vec![]; cie_body.extend_from_slice(&0xffff_ffffu32.to_le_bytes()); cie_body.push(1); cie_body.push(0);
        uleb(256, &mut cie_body); cie_body.push(0 /* daf = 0 */); cie_body.push(0);
        while (cie_body.len() + 4) % 8 != 0 { cie_body.push(0); }
        let mut sec = vec![]; sec.extend_from_slice(&(cie_body.len() as u32).to_le_bytes()); sec.extend_from_slice(&cie_body);
        // FDE: cie ptr 0, initial loc u64, range u64, instrs: advance_loc 1 (0x41), DW_CFA_offset r1, 2 (0x81,0x02)
        let mut fde_body = vec![]; fde_body.extend_from_slice(&0u32.to_le_bytes()); fde_body.extend_from_slice(&0x1000u64.to_le_bytes()); fde_body.extend_from_slice(&0x100u64.to_le_bytes());
        fde_body.extend_from_slice(&[0x41, 0x81, 0x02]);
        while (fde_body.len() + 4) % 8 != 0 { fde_body.push(0); }
        sec.extend_from_slice(&(fde_body.len() as u32).to_le_bytes()); sec.extend_from_slice(&fde_body);
        let mut df = DebugFrame::new(&sec, LittleEndian); df.set_address_size(8);
        let ft = gimli::write::FrameTable::from(&df, &|a| Some(gimli::write::Address::Constant(a)));
        println!("  convert: {:?}", ft.as_ref().map(|t| (t.cie_count(), t.fde_count())).map_err(|e| format!("{e:?}")));
        let ft = ft.unwrap();
        let mut out = gimli::write::DebugFrame::from(gimli::write::EndianVec::new(LittleEndian));
        let r = ft.write_debug_frame(&mut out);
        println!("  write: {:?}", r);
    });
}
