use gimli::write::{self, Address, AttributeValue, Range, RangeList, Sections, EndianVec, Unit, LineProgram};
use gimli::{Encoding, Format, LittleEndian};
fn main() {
    let enc = Encoding { format: Format::Dwarf32, version: 4, address_size: 4 };
    let mut dwarf = write::Dwarf::new();
    let uid = dwarf.units.add(Unit::new(enc, LineProgram::none()));
    let unit = dwarf.units.get_mut(uid);
    let list = RangeList(vec![
        Range::BaseAddress { address: Address::Constant(0x1000) },
        Range::OffsetPair { begin: 0xffff_ffff, end: 0x20 },   // begin == all-ones marker for address size 4
        Range::OffsetPair { begin: 0x30, end: 0x40 },
    ]);
    let id = unit.ranges.add(list);
    let root = unit.root();
    unit.get_mut(root).set(gimli::DW_AT_ranges, AttributeValue::RangeListRef(id));
    unit.get_mut(root).set(gimli::DW_AT_low_pc, AttributeValue::Address(Address::Constant(0)));
    let mut sections = Sections::new(EndianVec::new(LittleEndian));
    let r = dwarf.write(&mut sections);
    println!("write: {:?}", r);
    let load = |id: gimli::SectionId| -> Result<gimli::EndianSlice<'_, LittleEndian>, gimli::Error> {
        Ok(gimli::EndianSlice::new(sections.get(id).map(|w| w.slice()).unwrap_or(&[]), LittleEndian))
    };
    let rd = gimli::Dwarf::load(load).unwrap();
    let h = rd.units().next().unwrap().unwrap();
    let u = rd.unit(h).unwrap();
    let mut c = u.entries();
    let e = c.next_dfs().unwrap().unwrap().clone();
    let mut it = rd.die_ranges(&u, &e).unwrap();
    let mut out = vec![];
    while let Some(r) = it.next().unwrap() { out.push((r.begin, r.end)); }
    println!("read back: {:x?}", out);
    println!("intended : [(1000+ffffffff wraps.., ..), (1030, 1040)]");
}
