#!/usr/bin/env python3
"""Probe: reader-core batch (Reader trait contract layer, leb128::read, EndianSlice) from real text."""
from vxp import *

common = Source('common.rs')
rmod = Source('read/mod.rs')
rd = Source('read/reader.rs')
lb = Source('leb128.rs')
es = Source('read/endian_slice.rs')

common_items = '\n'.join(clean(common.item(h)) for h in [
    r'^pub enum Format', r'^impl Format \{', r'^pub enum Vendor', r'^pub struct Encoding', r'^pub struct Register\(',
    r'^pub struct DebugAddrBase', r'^pub struct DebugAddrIndex', r'^pub struct DebugInfoOffset'])

consts = '\n'.join(dw_consts(t, p) for t, p in [
    ('DwEhPe', 'DW_EH_PE_'), ('DwForm', 'DW_FORM_'), ('DwAt', 'DW_AT_'), ('DwOp', 'DW_OP_'), ('DwCfa', 'DW_CFA_'),
    ('DwChildren', 'DW_CHILDREN_'), ('DwLle', 'DW_LLE_'), ('DwRle', 'DW_RLE_'), ('DwUt', 'DW_UT_'),
    ('DwSect', 'DW_SECT_'), ('DwSectV2', 'DW_SECT_V2_'), ('DwMacinfo', 'DW_MACINFO_'), ('DwMacro', 'DW_MACRO_')])

err = clean(rmod.item(r'^pub enum Error \{'))
reg = clean(rmod.item(r'^impl Register \{'))

roid = clean(rd.item(r'^pub struct ReaderOffsetId'))
rotrait = clean(rd.item(r'^pub trait ReaderOffset:'))
rousize = clean(rd.item(r'^impl ReaderOffset for usize'))
ratrait = clean(rd.item(r'^pub\(crate\) trait ReaderAddress'))
rau64 = clean(rd.item(r'^impl ReaderAddress for u64'))

VAS='(size == 1 || size == 2 || size == 4 || size == 8)'
for t in ['ratrait','rau64']:
    pass
ratrait = splice(ratrait, 'add_sized', ret='res', requires=[VAS])
ratrait = splice(ratrait, 'wrapping_add_sized', ret='res', requires=[VAS])
ratrait = splice(ratrait, 'ones_sized', ret='res', requires=[VAS])
ratrait = splice(ratrait, 'min_tombstone', ret='res', requires=[VAS])
rau64 = splice(rau64, 'ones_sized', ret='res', ensures=['size == 1 ==> res == 0xff', 'size == 2 ==> res == 0xffff', 'size == 4 ==> res == 0xffff_ffff', 'size == 8 ==> res == 0xffff_ffff_ffff_ffff'],
   before=[('!0 >> (64 - size * 8)', 'proof { assert(!0u64 >> 56u64 == 0xff) by (bit_vector); assert(!0u64 >> 48u64 == 0xffff) by (bit_vector); assert(!0u64 >> 32u64 == 0xffff_ffff) by (bit_vector); assert(!0u64 >> 0u64 == 0xffff_ffff_ffff_ffff) by (bit_vector); }')])
rau64 = splice(rau64, 'add_sized', ret='res', ensures=['res matches Ok(a) ==> a == self + length && a <= (if size == 1 { 0xffu64 } else if size == 2 { 0xffff } else if size == 4 { 0xffff_ffff } else { 0xffff_ffff_ffff_ffff })',
    'res is Err <==> self + length > (if size == 1 { 0xffu64 } else if size == 2 { 0xffff } else if size == 4 { 0xffff_ffff } else { 0xffff_ffff_ffff_ffff })'],
    before=[('if address & !mask != 0 {', 'proof { assert(address & !0xffu64 == 0 <==> address <= 0xffu64) by (bit_vector); assert(address & !0xffffu64 == 0 <==> address <= 0xffffu64) by (bit_vector); assert(address & !0xffff_ffffu64 == 0 <==> address <= 0xffff_ffffu64) by (bit_vector); assert(address & !0xffff_ffff_ffff_ffffu64 == 0) by (bit_vector); }')])
# ---- Reader trait: real text + contract layer
reader = rd.item(r'^pub trait Reader: Debug \+ Clone')
reader = drop_methods(reader, ['to_slice', 'to_string', 'to_string_lossy', 'read_u8_array'])
LEB_DELEG = ['skip_leb128','read_uleb128','read_uleb128_u32','read_uleb128_u16','read_sleb128']
INT_READS = ['read_u8', 'read_i8', 'read_u16', 'read_i16', 'read_u32', 'read_i32', 'read_u64', 'read_i64',
             'read_u128', 'read_f32', 'read_f64', 'read_uint']
reader = make_required(reader, INT_READS + LEB_DELEG + ['is_empty'])
reader = clean(reader)

GHOST = '''
    // ---- ghost view (contract layer, see DESIGN.md 5.1)
    spec fn bytes(&self) -> Seq<u8>;
    spec fn tracks() -> bool;     // does this implementation expose positions to the verifier?
    spec fn sec(&self) -> int;
    spec fn pos(&self) -> nat;
'''
reader = reader.replace('type Offset: ReaderOffset;', 'type Offset: ReaderOffset;' + GHOST, 1)

def adv(n):
    return (f'old(self).bytes().len() >= {n} && final(self).bytes() == old(self).bytes().skip({n} as int) '
            f'&& (Self::tracks() ==> final(self).sec() == old(self).sec() && final(self).pos() == old(self).pos() + {n})')
UNCH = 'final(self).bytes() == old(self).bytes() && (Self::tracks() ==> final(self).sec() == old(self).sec() && final(self).pos() == old(self).pos())'

def fixed_read(name, n):
    global reader
    reader = splice(reader, name, ret='res', ensures=[
        f'res is Ok ==> {adv(n)}',
        f'res is Err ==> {UNCH}'])

for nm, n in [('read_u8', 1), ('read_i8', 1), ('read_u16', 2), ('read_i16', 2), ('read_u32', 4), ('read_i32', 4),
              ('read_u64', 8), ('read_i64', 8), ('read_u128', 16), ('read_f32', 4), ('read_f64', 8)]:
    fixed_read(nm, n)
reader = splice(reader, 'read_uint', ret='res', requires=['1 <= n <= 8'], ensures=[
    'res is Ok ==> ' + adv('n'), f'res is Err ==> {UNCH}'])
reader = splice(reader, 'len', ret='res', ensures=['res.as_nat() == self.bytes().len()'])
reader = splice(reader, 'empty', ensures=['final(self).bytes().len() == 0', 'Self::tracks() ==> final(self).sec() == old(self).sec()'])
reader = splice(reader, 'truncate', ret='res', ensures=[
    'res is Ok ==> len.as_nat() <= old(self).bytes().len() && final(self).bytes() == old(self).bytes().take(len.as_nat() as int) && (Self::tracks() ==> final(self).sec() == old(self).sec() && final(self).pos() == old(self).pos())',
    f'res is Err ==> {UNCH}'])
reader = splice(reader, 'skip', ret='res', ensures=[
    'res is Ok ==> ' + adv('len.as_nat()'), f'res is Err ==> {UNCH}'])
reader = splice(reader, 'split', ret='res', ensures=[
    'res matches Ok(r) ==> (' + adv('len.as_nat()') + ' && r.bytes() == old(self).bytes().take(len.as_nat() as int) && (Self::tracks() ==> r.sec() == old(self).sec() && r.pos() == old(self).pos()))',
    f'res is Err ==> {UNCH}'])
reader = splice(reader, 'find', ret='res', ensures=[
    'res matches Ok(i) ==> i.as_nat() < self.bytes().len() && self.bytes()[i.as_nat() as int] == byte && forall|j: int| 0 <= j < i.as_nat() ==> self.bytes()[j] != byte'])
reader = splice(reader, 'offset_from', ret='res', requires=['Self::tracks() ==> self.sec() == base.sec() && base.pos() <= self.pos()'],
                ensures=['Self::tracks() ==> res.as_nat() == self.pos() - base.pos()'])
reader = splice(reader, 'read_slice', ret='res', ensures=[
    'res is Ok ==> ' + adv('old(buf)@.len()') + ' && final(buf)@ == old(self).bytes().take(old(buf)@.len() as int)',
    f'res is Err ==> {UNCH}', 'final(buf)@.len() == old(buf)@.len()'])
for nm in LEB_DELEG:
    reader = splice(reader, nm, ret='res', ensures=[
        'res is Ok ==> final(self).bytes().len() < old(self).bytes().len() && old(self).bytes().len() - final(self).bytes().len() <= 10 ',
        ])
# default methods with real bodies
reader = splice(reader, 'is_empty', ret='res', ensures=['res == (self.bytes().len() == 0)'])
reader = splice(reader, 'read_null_terminated_slice', ret='res', ensures=[
    'res matches Ok(r) ==> final(self).bytes().len() < old(self).bytes().len() && (Self::tracks() ==> r.sec() == old(self).sec() && r.pos() == old(self).pos() && final(self).sec() == old(self).sec()) && r.bytes().len() + 1 + final(self).bytes().len() == old(self).bytes().len()',
])
reader = splice(reader, 'read_initial_length', ret='res', ensures=[
    'res is Ok ==> final(self).bytes().len() + 4 <= old(self).bytes().len()',
])
reader = splice(reader, 'read_address_size', ret='res', ensures=[
    'res matches Ok(s) ==> (s == 1 || s == 2 || s == 4 || s == 8) && ' + adv(1)])
reader = splice(reader, 'read_address', ret='res', ensures=[
    'res is Ok ==> (address_size == 1 || address_size == 2 || address_size == 4 || address_size == 8) && ' + adv('address_size'),
    f'res is Err ==> {UNCH}'])
reader = splice(reader, 'read_word', ret='res', ensures=[
    'res is Ok ==> final(self).bytes().len() < old(self).bytes().len()'])

leb_read = clean(lb.item(r'^pub mod read \{')).replace('pub mod read {','pub mod read {\n    use vstd::prelude::*;',1)
leb_read = splice(leb_read, 'skip', ret='res', ensures=[
    'res is Ok ==> final(r).bytes().len() < old(r).bytes().len()'],
    loops={0: 'invariant r.bytes().len() <= old(r).bytes().len(),\n decreases r.bytes().len()'})
BV = 'proof { assert(1u8 << 7 == 0x80u8) by (bit_vector); assert(1u8 << 6 == 0x40u8) by (bit_vector); assert(byte == 0u8 || byte == 1u8 ==> byte & 0x80u8 == 0u8) by (bit_vector); assert(byte == 0u8 || byte == 0x7fu8 ==> byte & 0x80u8 == 0u8) by (bit_vector); }'
leb_read = splice(leb_read, 'unsigned', ret='res', ensures=['res is Ok ==> final(r).bytes().len() < old(r).bytes().len()'],
    loops={0: 'invariant_except_break r.bytes().len() < old(r).bytes().len(), 7 <= shift <= 63, shift % 7 == 0, \n ensures false, decreases 70 - shift'},
    before=[('shift += 7;', BV)])
leb_read = splice(leb_read, 'signed', ret='res', ensures=['res is Ok ==> final(r).bytes().len() < old(r).bytes().len()'],
    loops={0: 'invariant_except_break r.bytes().len() <= old(r).bytes().len(), 0 <= shift <= 63, shift % 7 == 0,\n ensures r.bytes().len() < old(r).bytes().len(), 7 <= shift <= 70, shift % 7 == 0, decreases 70 - shift'},
    before=[('shift += 7;', BV)])
leb_read = splice(leb_read, 'u16', ret='res', ensures=['res is Ok ==> final(r).bytes().len() < old(r).bytes().len()'],
    before=[('result += u16::from(byte) << 14;', 'proof { assert(byte <= 3u8 ==> (byte as u16) << 14u16 <= 0xc000u16) by (bit_vector); assert(forall|a: u16, b: u16| a < 128 && b < 128 ==> (a | (b << 7u16)) < 0x4000u16) by (bit_vector); }')])
low_bits = splice(clean(lb.item(r'^fn low_bits_of_byte')), 'low_bits_of_byte', ret='res', ensures=['res == byte & 0x7f', 'res < 128'],
    before=[('byte & !CONTINUATION_BIT', 'proof { assert(byte & !(1u8 << 7) == byte & 0x7f) by (bit_vector); assert(byte & 0x7f < 128) by (bit_vector); }')])
es_struct = '#[derive(Debug)]\n' + clean(es.item(r'^pub struct EndianSlice<'))
es_inh = clean(drop_methods(es.item(r"^impl<'input, Endian> EndianSlice<'input, Endian>"),
                            ['to_string', 'to_string_lossy', 'find', 'offset_from', 'split_at']))

es_reader = es.item(r"^impl<'input, Endian> Reader for EndianSlice<'input, Endian>")
es_reader = drop_methods(es_reader, ['to_slice', 'to_string', 'to_string_lossy'])
es_reader = external_body(es_reader, ['offset_from', 'offset_id', 'lookup_offset_id', 'find'])
es_reader = clean(es_reader)
VIEW = '''
    closed spec fn bytes(&self) -> Seq<u8> { self.slice@ }
    open spec fn tracks() -> bool { false }
    uninterp spec fn sec(&self) -> int;
    uninterp spec fn pos(&self) -> nat;
'''
# synthesize stubs for trait methods made required (R-STUB)
STUBS = ''
sigs = {'read_u8':'u8','read_i8':'i8','read_u16':'u16','read_i16':'i16','read_u32':'u32','read_i32':'i32','read_u64':'u64','read_i64':'i64','read_u128':'u128','read_f32':'f32','read_f64':'f64',
        'read_uleb128':'u64','read_uleb128_u32':'u32','read_uleb128_u16':'u16','read_sleb128':'i64','skip_leb128':'()'}
for nm, ty in sigs.items():
    STUBS += f'    #[verifier::external_body]\n    fn {nm}(&mut self) -> Result<{ty}> {{ unimplemented!() }}\n'
STUBS += '    #[verifier::external_body]\n    fn read_uint(&mut self, n: usize) -> Result<u64> { unimplemented!() }\n'
es_reader = es_reader.replace('type Offset = usize;', 'type Offset = usize;' + VIEW + STUBS, 1)
es_inh = splice(es_inh, 'new', ret='res', ensures=['res.bytes() == slice@'])
es_inh = splice(es_inh, 'read_slice', ret='res', ensures=[
    'res matches Ok(v) ==> old(self).slice@.len() >= len && v@ == old(self).slice@.take(len as int) && final(self).slice@ == old(self).slice@.skip(len as int) && final(self).endian == old(self).endian',
    'res is Err ==> final(self).slice@ == old(self).slice@ && final(self).endian == old(self).endian && old(self).slice@.len() < len'])
ROFF_GHOST = '\n    spec fn as_nat(self) -> nat;\n'
rotrait = rotrait.replace('{', '{' + ROFF_GHOST, 1)
rotrait = splice(rotrait, 'from_u8', ret='res', ensures=['res.as_nat() == offset'])
rotrait = splice(rotrait, 'from_u16', ret='res', ensures=['res.as_nat() == offset'])
rotrait = splice(rotrait, 'from_u32', ret='res', ensures=['res.as_nat() == offset'])
rotrait = splice(rotrait, 'from_u64', ret='res', ensures=['res matches Ok(o) ==> o.as_nat() == offset', 'offset <= 0xffff_ffff ==> res is Ok'])
rotrait = splice(rotrait, 'into_u64', ret='res', ensures=['res == self.as_nat()'])
rousize = rousize.replace('{', '{\n    open spec fn as_nat(self) -> nat { self as nat }\n', 1)

ab = Source('read/abbrev.rs'); un = Source('read/unit.rs')
aspec = clean(ab.item(r'^pub struct AttributeSpecification \{'))
aspec_impl = ab.item(r'^impl AttributeSpecification \{')
aspec_impl = clean(drop_methods(aspec_impl, ['size', 'parse']))
gas = clean(ab.item(r'^pub\(crate\) fn get_attribute_size'))
skipa = clean(un.item(r'^pub\(crate\) fn skip_attributes<')).replace('<R: Reader>', '<R: Reader<Offset = usize>>')
skipa = splice(skipa, 'skip_attributes', ret='res',
    ensures=['res is Ok ==> final(input).bytes().len() <= old(input).bytes().len()'],
    loops={0: 'invariant input.bytes().len() <= old(input).bytes().len(),',
           1: 'invariant input.bytes().len() <= old(input).bytes().len(),\n decreases input.bytes().len()'})
out = f'''
#![allow(unused, non_upper_case_globals, non_camel_case_types)]
use vstd::prelude::*;
verus! {{
global size_of usize == 8;
pub fn verif_assert(b: bool) requires b {{}}
pub assume_specification<T, E, U, F: FnOnce(T) -> core::result::Result<U, E>>[core::result::Result::<T,E>::and_then](r: core::result::Result<T,E>, op: F) -> (res: core::result::Result<U,E>)
  requires r is Ok ==> op.requires((r->Ok_0,)),
  ensures match r {{ Ok(v) => op.ensures((v,), res), Err(e) => res == Err::<U,E>(e) }};

#[verifier::external_body]
pub fn verif_unreachable() -> ! requires false {{ panic!() }}

pub mod common {{
use vstd::prelude::*;
{common_items}
}}
pub use crate::common::*;
pub mod constants {{
use vstd::prelude::*;
{consts}
}}
pub mod endianity {{
use vstd::prelude::*;
pub trait Endianity: core::fmt::Debug + Default + Clone + Copy + PartialEq + Eq {{
    fn is_big_endian(self) -> bool;
}}
}}
pub mod leb128 {{
use vstd::prelude::*;
{clean(lb.item(r'^const CONTINUATION_BIT'))}
{clean(lb.item(r'^const SIGN_BIT'))}
{low_bits}
{leb_read}
}}
pub mod read {{
use vstd::prelude::*;
use core::result;
use core::fmt;
use crate::constants;
use crate::common::*;
pub use self::reader::*;
pub use self::endian_slice::*;
{err}
pub type Result<T> = result::Result<T, Error>;
{reg}
pub mod reader {{
use vstd::prelude::*;
use core::fmt::Debug;
use core::hash::Hash;
use core::ops::{{Add, AddAssign, Sub}};
use core::convert::TryInto;
use crate::common::Format;
use crate::endianity::Endianity;
use crate::leb128;
use crate::read::{{Error, Result}};
{roid}
{rotrait}
{rousize}
{ratrait}
{rau64}
{reader}
}}
pub mod abbrev {{
use vstd::prelude::*;
use crate::common::Encoding;
use crate::constants;
use crate::read::{{Error, Reader, ReaderOffset, Result}};
{aspec}
{aspec_impl}
{gas}
}}
pub mod unit {{
use vstd::prelude::*;
use crate::common::{{Encoding, Format}};
use crate::constants;
use crate::read::abbrev::{{AttributeSpecification, get_attribute_size}};
use crate::read::{{Error, Reader, ReaderOffset, Result}};
{skipa}
}}
pub mod endian_slice {{
use vstd::prelude::*;
use core::fmt;
use core::ops::{{Deref, Range, RangeFrom, RangeTo}};
use core::str;
use crate::endianity::Endianity;
use crate::read::{{Error, Reader, ReaderOffsetId, Result}};
{es_struct}
{es_inh}
{es_reader}
}}
}}
}}
fn main(){{}}
'''
open('v2.rs', 'w').write(out)
print('generated', len(out.split(chr(10))), 'lines')
