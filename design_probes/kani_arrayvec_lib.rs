#![allow(dead_code)]
extern crate alloc;
#[cfg(kani)]
#[path = "/repo/src/read/util.rs"]
mod util;

#[cfg(kani)]
mod proofs {
    use super::util::ArrayVec;

    #[kani::proof]
    #[kani::unwind(6)]
    fn arrayvec_ops() {
        let mut v: ArrayVec<[u32; 4]> = ArrayVec::new();
        let n: usize = kani::any();
        kani::assume(n <= 5);
        let mut model_len = 0usize;
        for i in 0..n {
            let x: u32 = kani::any();
            let r = v.try_push(x);
            if model_len < 4 { assert!(r.is_ok()); model_len += 1; assert!(v[model_len-1] == x); } else { assert!(r.is_err()); }
        }
        assert!(v.len() == model_len);
        if model_len > 0 && model_len < 4 {
            let idx: usize = kani::any();
            kani::assume(idx <= model_len);
            let first = v[0];
            v.try_insert(idx, 99).unwrap();
            assert!(v.len() == model_len + 1);
            assert!(v[idx] == 99);
            if idx > 0 { assert!(v[0] == first); }
        }
    }
}
