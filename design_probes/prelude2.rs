use vstd::prelude::*;
verus! {
pub mod constants {
    use vstd::prelude::*;
    /*CONSTS*/
}
#[derive(Clone, Copy, Debug)]
pub enum Error { UnexpectedEof(u64), BadUnsignedLeb128, BadSignedLeb128, UnsupportedOffset, UnsupportedAddressSize(u8), UnknownForm(constants::DwForm), InvalidImplicitConst, AttributeNameZero, AttributeFormZero }
pub type Result<T> = core::result::Result<T, Error>;
#[derive(Clone, Copy, PartialEq, Eq, Debug)]
pub enum Format { Dwarf64 = 8, Dwarf32 = 4 }
impl Format { pub fn word_size(self) -> (r: u8) ensures r == 4 || r == 8 { match self { Format::Dwarf32 => 4, Format::Dwarf64 => 8 } } }
#[derive(Clone, Copy, PartialEq, Eq, Debug)]
pub struct Encoding { pub address_size: u8, pub format: Format, pub version: u16 }
pub struct UnitHeader<R> { pub e: Encoding, pub r: R }
impl<R> UnitHeader<R> { pub fn encoding(&self) -> Encoding { self.e } }

pub assume_specification<T, E, U, F: FnOnce(T) -> core::result::Result<U, E>>[core::result::Result::<T,E>::and_then](r: core::result::Result<T,E>, op: F) -> (res: core::result::Result<U,E>)
  requires r is Ok ==> op.requires((r->Ok_0,)),
  ensures match r { Ok(v) => op.ensures((v,), res), Err(e) => res == Err::<U,E>(e) };
pub fn verif_assert(b: bool) requires b {}

pub trait ReaderOffset: Sized + Copy + core::fmt::Debug + PartialEq + Eq {
    fn from_u8(offset: u8) -> Self;
    fn from_u16(offset: u16) -> Self;
    fn from_i16(offset: i16) -> Self;
    fn from_u32(offset: u32) -> Self;
    fn from_u64(offset: u64) -> Result<Self>;
    fn into_u64(self) -> u64;
    fn wrapping_add(self, other: Self) -> Self;
    fn checked_sub(self, other: Self) -> Option<Self>;
}

pub trait Reader: Sized + core::fmt::Debug + Clone {
    type Offset: ReaderOffset;
    spec fn bytes(&self) -> Seq<u8>;
    fn skip(&mut self, len: Self::Offset) -> (r: Result<()>) ensures final(self).bytes().len() <= old(self).bytes().len();
    fn read_u8(&mut self) -> (r: Result<u8>) ensures final(self).bytes().len() <= old(self).bytes().len();
    fn read_u16(&mut self) -> (r: Result<u16>) ensures final(self).bytes().len() <= old(self).bytes().len();
    fn read_u32(&mut self) -> (r: Result<u32>) ensures final(self).bytes().len() <= old(self).bytes().len();
    fn read_uleb128(&mut self) -> (r: Result<u64>) ensures final(self).bytes().len() <= old(self).bytes().len();
    fn read_uleb128_u16(&mut self) -> (r: Result<u16>) ensures final(self).bytes().len() <= old(self).bytes().len();
    fn read_sleb128(&mut self) -> (r: Result<i64>) ensures final(self).bytes().len() <= old(self).bytes().len();
    fn skip_leb128(&mut self) -> (r: Result<()>) ensures final(self).bytes().len() <= old(self).bytes().len();
    fn read_null_terminated_slice(&mut self) -> (r: Result<Self>) ensures final(self).bytes().len() <= old(self).bytes().len();
}

/*BODY*/
}
fn main(){}
