#![allow(dead_code, unused_imports)]
extern crate alloc;
#[cfg(kani)]
#[path = "/repo/src/read/util.rs"]
mod util;

#[cfg(kani)]
pub use kcfi::CallFrameInstruction;
#[cfg(kani)]
pub use gimli::AArch64;
#[cfg(kani)]
mod kcfi {
    use super::util::{ArrayLike, ArrayVec};
    use core::fmt::{self, Debug};
    use core::iter::FromIterator;
    use core::num::Wrapping;
    use gimli::{Error, ReaderOffset, Register, Result, Reader};
    pub struct StoreOnHeap;
    include!("gen/kcfi.rs");

    pub struct Small;
    impl<T: ReaderOffset> UnwindContextStorage<T> for Small {
        type Rules = [(Register, RegisterRule<T>); 3];
        type Stack = [UnwindTableRow<T, Self>; 3];
    }
    impl<T: ReaderOffset> UnwindContextStorage<T> for StoreOnHeap {
        type Rules = [(Register, RegisterRule<T>); 3];
        type Stack = [UnwindTableRow<T, Self>; 3];
    }

    fn any_rule() -> RegisterRule<usize> {
        match kani::any::<u8>() % 6 {
            0 => RegisterRule::Undefined, 1 => RegisterRule::SameValue, 2 => RegisterRule::Offset(kani::any()),
            3 => RegisterRule::ValOffset(kani::any()), 4 => RegisterRule::Register(Register(kani::any())), _ => RegisterRule::Constant(kani::any()),
        }
    }

    // RegisterRuleMap behaves as a finite map with capacity 3
    #[kani::proof]
    #[kani::unwind(5)]
    fn rrmap_set_get_clear() {
        let mut m: RegisterRuleMap<usize, Small> = Default::default();
        let r1 = Register(kani::any()); let r2 = Register(kani::any());
        let v1 = any_rule(); let v2 = any_rule();
        assert!(m.get(r1).is_none());
        m.set(r1, v1.clone()).unwrap();
        assert!(m.get(r1) == Some(v1.clone()));
        m.set(r2, v2.clone()).unwrap();
        assert!(m.get(r2) == Some(v2.clone()));
        if r1 != r2 { assert!(m.get(r1) == Some(v1.clone())); }
        m.clear(r1).unwrap();
        assert!(m.get(r1).is_none());
        if r1 != r2 { assert!(m.get(r2) == Some(v2)); }
    }

    // push_row / pop_row on a fresh context: stack depth limits
    #[kani::proof]
    #[kani::unwind(5)]
    fn ctx_push_pop() {
        let mut ctx: UnwindContext<usize, Small> = UnwindContext::new_in();
        assert!(ctx.pop_row().is_err());
        assert!(ctx.push_row().is_ok());
        assert!(ctx.push_row().is_ok());
        assert!(ctx.push_row().is_err()); // capacity 3
        assert!(ctx.pop_row().is_ok());
        assert!(ctx.pop_row().is_ok());
        assert!(ctx.pop_row().is_err());
    }

    fn any_instr() -> CallFrameInstruction<usize> {
        use CallFrameInstruction::*;
        match kani::any::<u8>() % 20 {
            0 => SetLoc { address: kani::any() }, 1 => AdvanceLoc { delta: kani::any() },
            2 => DefCfa { register: Register(kani::any()), offset: kani::any() },
            3 => DefCfaSf { register: Register(kani::any()), factored_offset: kani::any() },
            4 => DefCfaRegister { register: Register(kani::any()) }, 5 => DefCfaOffset { offset: kani::any() },
            6 => DefCfaOffsetSf { factored_offset: kani::any() },
            7 => Undefined { register: Register(kani::any()) }, 8 => SameValue { register: Register(kani::any()) },
            9 => Offset { register: Register(kani::any()), factored_offset: kani::any() },
            10 => OffsetExtendedSf { register: Register(kani::any()), factored_offset: kani::any() },
            11 => ValOffset { register: Register(kani::any()), factored_offset: kani::any() },
            12 => ValOffsetSf { register: Register(kani::any()), factored_offset: kani::any() },
            13 => Register { dest_register: Register(kani::any()), src_register: Register(kani::any()) },
            14 => Restore { register: Register(kani::any()) }, 15 => RememberState, 16 => RestoreState,
            17 => ArgsSize { size: kani::any() }, 18 => NegateRaState, _ => Nop,
        }
    }

    // one arbitrary instruction from an arbitrary small pre-state: sample clauses of cfa_step
    #[kani::proof]
    #[kani::unwind(5)]
    fn evaluate_step() {
        let mut ctx: UnwindContext<usize, Small> = UnwindContext::new_in();
        // arbitrary pre-state: up to one rule, arbitrary cfa, arbitrary start
        if kani::any() { ctx.set_register_rule(Register(kani::any()), any_rule()).unwrap(); }
        ctx.set_cfa(CfaRule::RegisterAndOffset { register: Register(kani::any()), offset: kani::any() });
        let start: u64 = kani::any();
        ctx.set_start_address(start);
        let caf: u64 = kani::any(); let daf: i64 = kani::any();
        let size: u8 = kani::any();
        kani::assume(size == 1 || size == 2 || size == 4 || size == 8);
        let instr = any_instr();
        let pre_cfa = ctx.row().cfa().clone();
        let mut t: UnwindTable<'_, '_, gimli::EndianSlice<'static, gimli::LittleEndian>, Small> = UnwindTable {
            code_alignment_factor: Wrapping(caf), data_alignment_factor: Wrapping(daf), address_size: size,
            next_start_address: start, last_end_address: 0, returned_last_row: false, current_row_valid: false,
            instructions: core::marker::PhantomData, ctx: &mut ctx,
        };
        let r = t.evaluate(instr.clone());
        match instr {
            CallFrameInstruction::Offset { register, factored_offset } => {
                assert!(r == Ok(false));
                assert!(t.ctx.row().register(register) == Some(RegisterRule::Offset((factored_offset as i64).wrapping_mul(daf))));
                assert!(*t.ctx.row().cfa() == pre_cfa);
            }
            CallFrameInstruction::AdvanceLoc { delta } => {
                let d = (delta as u64).wrapping_mul(caf);
                let ones = !0u64 >> (64 - size as u32 * 8);
                match start.checked_add(d) {
                    Some(a) if a <= ones => { assert!(r == Ok(true)); assert!(t.ctx.row().end_address() == a); assert!(t.next_start_address == a); }
                    _ => assert!(r.is_err()),
                }
            }
            CallFrameInstruction::SetLoc { address } => {
                if address < start { assert!(r.is_err()); } else { assert!(r == Ok(true)); assert!(t.ctx.row().end_address() == address); }
            }
            CallFrameInstruction::DefCfaOffsetSf { factored_offset } => {
                assert!(r == Ok(false));
                match (pre_cfa, t.ctx.row().cfa()) {
                    (CfaRule::RegisterAndOffset { register: r0, .. }, CfaRule::RegisterAndOffset { register: r1, offset }) => { assert!(r0 == *r1); assert!(*offset == factored_offset.wrapping_mul(daf)); }
                    _ => assert!(false),
                }
            }
            CallFrameInstruction::Restore { .. } => { assert!(r.is_err()); } // not initialized -> invalid context
            _ => {}
        }
    }
}
