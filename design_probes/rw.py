import re
def match_paren(s, i):
    d=0
    k=i
    while True:
        c=s[k]
        if c in '([{': d+=1
        elif c in ')]}':
            d-=1
            if d==0: return k
        elif c=='"':
            k+=1
            while s[k]!='"':
                if s[k]=='\\': k+=1
                k+=1
        k+=1
def split_top(s):
    parts=[];d=0;cur=''
    i=0
    while i<len(s):
        c=s[i]
        if c in '([{': d+=1
        elif c in ')]}': d-=1
        elif c=='"':
            j=i+1
            while s[j]!='"':
                if s[j]=='\\': j+=1
                j+=1
            cur+=s[i:j+1]; i=j+1; continue
        if c==',' and d==0:
            parts.append(cur); cur=''
        else: cur+=c
        i+=1
    if cur.strip(): parts.append(cur)
    return parts
def rewrite_asserts(s):
    out='';i=0
    pat=re.compile(r'\b(debug_assert_eq|debug_assert_ne|debug_assert|assert_eq|assert_ne|assert)!\s*\(')
    while True:
        m=pat.search(s,i)
        if not m: out+=s[i:]; break
        out+=s[i:m.start()]
        p=s.index('(',m.start())
        e=match_paren(s,p)
        args=split_top(s[p+1:e])
        kind=m.group(1)
        if kind.endswith('_eq'): cond=f'({args[0].strip()}) == ({args[1].strip()})'
        elif kind.endswith('_ne'): cond=f'({args[0].strip()}) != ({args[1].strip()})'
        else: cond=args[0].strip()
        out+=f'verif_assert({cond})'
        i=e+1
    out=re.sub(r'\bunreachable!\(\)', 'verif_unreachable()', out)
    return out
