use vstd::prelude::*;
verus! {
pub mod constants {
    use vstd::prelude::*;
    /*CONSTS*/
}
use crate::constants::DwOp;
#[derive(Clone, Copy, Debug)]
pub enum Error { UnsupportedExpressionForwardReference, UnsupportedCfiExpressionReference, InvalidReference, ValueTooLarge, UnsupportedWordSize(u8), InvalidAddress }
pub type Result<T> = core::result::Result<T, Error>;
#[derive(Clone, Copy, PartialEq, Eq, Debug)]
pub enum Format { Dwarf64 = 8, Dwarf32 = 4 }
impl Format { pub fn word_size(self) -> (r: u8) ensures r == 4 || r == 8 { match self { Format::Dwarf32 => 4, Format::Dwarf64 => 8 } } }
#[derive(Clone, Copy, PartialEq, Eq, Debug)]
pub struct Encoding { pub address_size: u8, pub format: Format, pub version: u16 }
#[derive(Clone, Copy, PartialEq, Eq, Debug)]
pub struct Register(pub u16);
#[derive(Clone, Copy, PartialEq, Eq, Debug)]
pub enum Address { Constant(u64), Symbol { symbol: usize, addend: i64 } }
#[derive(Clone, Copy, PartialEq, Eq, Debug)]
pub struct UnitEntryId { pub index: usize }
#[derive(Clone, Copy, PartialEq, Eq, Debug)]
pub struct UnitId { pub index: usize }
#[derive(Clone, Copy, PartialEq, Eq, Debug)]
pub enum DebugInfoRef { Symbol(usize), Entry(UnitId, UnitEntryId) }
pub struct DebugInfoFixup { pub offset: usize, pub unit: UnitId, pub entry: UnitEntryId, pub size: u8 }
pub struct UnitOffsets { pub x: usize }
impl UnitOffsets {
    #[verifier::external_body]
    pub fn unit_offset(&self, entry: UnitEntryId) -> Option<u64> { unimplemented!() }
}
pub fn verif_assert(b: bool) requires b {}

pub trait Writer: Sized {
    spec fn wlen(&self) -> nat;
    fn len(&self) -> (r: usize) ensures r == self.wlen();
    fn write(&mut self, bytes: &[u8]) -> (r: Result<()>) ensures r is Ok ==> final(self).wlen() == old(self).wlen() + bytes@.len();
    fn write_u8(&mut self, val: u8) -> (r: Result<()>) ensures r is Ok ==> final(self).wlen() == old(self).wlen() + 1;
    fn write_address(&mut self, address: Address, size: u8) -> (r: Result<()>) ensures r is Ok ==> final(self).wlen() == old(self).wlen() + size;
    fn write_udata(&mut self, val: u64, size: u8) -> (r: Result<()>) ensures r is Ok ==> final(self).wlen() == old(self).wlen() + size;
    fn write_sdata(&mut self, val: i64, size: u8) -> (r: Result<()>) ensures r is Ok ==> final(self).wlen() == old(self).wlen() + size;
    fn write_uleb128(&mut self, val: u64) -> (r: Result<()>);
    fn write_sleb128(&mut self, val: i64) -> (r: Result<()>);
    fn write_reference(&mut self, symbol: usize, size: u8) -> (r: Result<()>);
}

/*BODY*/
}
fn main(){}
