// Feasibility probes for the Kani side (DESIGN.md §4: P1, P9, P12, P13, P14, P22, P23).
// Not part of the machinery. To re-run: put this file as src/lib.rs of a scratch crate with
//   [dependencies] gimli = { path = "/repo", default-features = false, features = ["read","write","std","endian-reader"] }
//   [features] read = []   default = ["read"]          (for the #[path] include of util.rs)
//   .cargo/config.toml: [net] offline = true ; Cargo.lock copied from /repo
// and run e.g.  (ulimit -v 24000000; timeout 900 cargo kani --harness uleb_roundtrip_all_u64 --output-format terse)
#![allow(dead_code)]
extern crate alloc;

#[cfg(kani)]
#[path = "/repo/src/read/util.rs"]
mod util; // the real file, compiled into this crate (P12)

#[cfg(kani)]
mod proofs {
    use gimli::leb128;
    use gimli::{
        DebugAddr, DebugAddrBase, DebugAddrIndex, EndianReader, EndianSlice, Endianity, LittleEndian,
        Reader, RunTimeEndian, Value,
    };
    use std::rc::Rc;

    // P9a: encode(x) then decode == x, consumed == len == uleb128_size(x), for ALL u64.  (complete, ~23 s)
    #[kani::proof]
    #[kani::unwind(12)]
    fn uleb_roundtrip_all_u64() {
        let x: u64 = kani::any();
        let enc = leb128::write::Leb128::unsigned(x);
        let bytes = enc.bytes();
        assert!(bytes.len() == leb128::write::uleb128_size(x));
        let mut r = EndianSlice::new(bytes, LittleEndian);
        assert!(r.read_uleb128() == Ok(x));
        assert!(r.len() == 0);
    }

    // P9b: decode equals the mathematical value for ALL byte strings up to 11 bytes. (complete, ~31 s)
    #[kani::proof]
    #[kani::unwind(12)]
    fn uleb_decode_spec() {
        let buf: [u8; 11] = kani::any();
        let n: usize = kani::any();
        kani::assume(n <= 11);
        let mut r = EndianSlice::new(&buf[..n], LittleEndian);
        let got = r.read_uleb128();
        let mut acc: u128 = 0;
        let mut k = 0usize;
        let mut term = false;
        while k < n && k < 11 {
            acc |= ((buf[k] & 0x7f) as u128) << (7 * k as u32);
            if buf[k] & 0x80 == 0 {
                term = true;
                break;
            }
            k += 1;
        }
        if term && k <= 9 && acc <= u64::MAX as u128 && !(k == 9 && buf[9] > 1) {
            assert!(got == Ok(acc as u64));
            assert!(r.len() == n - (k + 1));
        } else {
            assert!(got.is_err());
        }
    }

    // P13: finds `index * address_size` overflow in DebugAddr::get_address (run with
    //      -Z concrete-playback --concrete-playback=print to get replayable values)
    #[kani::proof]
    fn get_address_no_panic() {
        let buf: [u8; 16] = kani::any();
        let addr = DebugAddr::from(EndianSlice::new(&buf[..], LittleEndian));
        let base: usize = kani::any();
        let index: usize = kani::any();
        let size: u8 = kani::any();
        kani::assume(size == 1 || size == 2 || size == 4 || size == 8);
        let _ = addr.get_address(size, DebugAddrBase(base), DebugAddrIndex(index));
    }

    fn any_value() -> Value {
        match kani::any::<u8>() % 11 {
            0 => Value::Generic(kani::any()),
            1 => Value::I8(kani::any()),
            2 => Value::U8(kani::any()),
            3 => Value::I16(kani::any()),
            4 => Value::U16(kani::any()),
            5 => Value::I32(kani::any()),
            6 => Value::U32(kani::any()),
            7 => Value::I64(kani::any()),
            8 => Value::U64(kani::any()),
            9 => Value::F32(kani::any()),
            _ => Value::F64(kani::any()),
        }
    }
    fn any_mask() -> u64 {
        let size: u8 = kani::any();
        kani::assume(size == 1 || size == 2 || size == 4 || size == 8);
        !0u64 >> (64 - size as u32 * 8)
    }

    // P14: totality of all Value ops. With floats included run with --no-overflow-checks (NaN checks).
    #[kani::proof]
    fn value_binops_total() {
        let a = any_value();
        let b = any_value();
        let m = any_mask();
        let _ = a.add(b, m);
        let _ = a.sub(b, m);
        let _ = a.mul(b, m);
        let _ = a.div(b, m);
        let _ = a.rem(b, m);
        let _ = a.shl(b, m);
        let _ = a.shr(b, m);
        let _ = a.shra(b, m);
        let _ = a.and(b, m);
        let _ = a.or(b, m);
        let _ = a.xor(b, m);
        let _ = a.eq(b, m);
        let _ = a.lt(b, m);
        let _ = a.neg(m);
        let _ = a.abs(m);
        let _ = a.not(m);
    }

    // P1: generic shra vs reference, compared modulo the address mask
    #[kani::proof]
    fn value_shra_generic() {
        let v1: u64 = kani::any();
        let v2: u64 = kani::any();
        let size: u8 = kani::any();
        kani::assume(size == 1 || size == 2 || size == 4 || size == 8);
        let mask: u64 = !0u64 >> (64 - size as u32 * 8);
        let r = Value::Generic(v1).shra(Value::Generic(v2), mask).unwrap();
        let bits = size as u32 * 8;
        let sv = ((v1 & mask) as i64) << (64 - bits) >> (64 - bits);
        let expect = if v2 >= bits as u64 { if sv < 0 { -1i64 } else { 0 } } else { sv >> v2 };
        match r {
            Value::Generic(x) => assert!(x & mask == (expect as u64) & mask),
            _ => unreachable!(),
        }
    }

    #[kani::proof]
    fn endian_read_u32_spec() {
        let b: [u8; 4] = kani::any();
        let e = if kani::any() { RunTimeEndian::Big } else { RunTimeEndian::Little };
        let v = e.read_u32(&b);
        let le = (b[0] as u32) | (b[1] as u32) << 8 | (b[2] as u32) << 16 | (b[3] as u32) << 24;
        let be = (b[3] as u32) | (b[2] as u32) << 8 | (b[1] as u32) << 16 | (b[0] as u32) << 24;
        assert!(v == if e.is_big_endian() { be } else { le });
    }

    // P23: inductive step for the unsafe SubRange behind EndianReader (43 s)
    #[kani::proof]
    #[kani::unwind(34)]
    fn subrange_step() {
        const L: usize = 16;
        let data: [u8; L] = kani::any();
        let buf: Rc<[u8]> = Rc::from(&data[..]);
        let s: usize = kani::any();
        let n: usize = kani::any();
        kani::assume(s <= L && n <= L - s);
        let base = EndianReader::new(buf.clone(), LittleEndian);
        let mut r = base.range(s..s + n);
        let mut m = EndianSlice::new(&data[s..s + n], LittleEndian);
        assert!(r.bytes() == m.slice());
        let op: u8 = kani::any();
        let arg: usize = kani::any();
        match op % 5 {
            0 => {
                let a = r.skip(arg);
                let b = m.skip(arg);
                assert!(a.is_ok() == b.is_ok());
            }
            1 => {
                let a = r.truncate(arg);
                let b = m.truncate(arg);
                assert!(a.is_ok() == b.is_ok());
            }
            2 => {
                let a = r.split(arg);
                let b = m.split(arg);
                assert!(a.is_ok() == b.is_ok());
                if let (Ok(a), Ok(b)) = (a, b) {
                    assert!(a.bytes() == b.slice());
                    assert!(a.offset_from(&base) == s);
                }
            }
            3 => {
                r.empty();
                m.empty();
            }
            _ => {
                let a = r.read_u32();
                let b = m.read_u32();
                assert!(a.is_ok() == b.is_ok());
                if let (Ok(a), Ok(b)) = (a, b) {
                    assert!(a == b);
                }
            }
        }
        assert!(r.bytes() == m.slice());
        let off = r.offset_from(&base);
        assert!(off <= L && r.len() <= L - off);
        let c = r.clone();
        drop(r);
        assert!(c.bytes() == m.slice());
    }

    // P12: the real ArrayVec (unsafe) included by #[path]
    #[kani::proof]
    #[kani::unwind(6)]
    fn arrayvec_ops() {
        use super::util::ArrayVec;
        let mut v: ArrayVec<[u32; 4]> = ArrayVec::new();
        let n: usize = kani::any();
        kani::assume(n <= 5);
        let mut model_len = 0usize;
        for _ in 0..n {
            let x: u32 = kani::any();
            let r = v.try_push(x);
            if model_len < 4 {
                assert!(r.is_ok());
                model_len += 1;
                assert!(v[model_len - 1] == x);
            } else {
                assert!(r.is_err());
            }
        }
        assert!(v.len() == model_len);
        if model_len > 0 && model_len < 4 {
            let idx: usize = kani::any();
            kani::assume(idx <= model_len);
            let first = v[0];
            v.try_insert(idx, 99).unwrap();
            assert!(v.len() == model_len + 1);
            assert!(v[idx] == 99);
            if idx > 0 {
                assert!(v[0] == first);
            }
        }
    }
}
