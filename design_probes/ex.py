#!/usr/bin/env python3
"""Throwaway prototype extractor: pull items verbatim from gimli sources by brace matching."""
import re, sys

def strip_comments_keep_layout(text):
    # remove /// doc lines and // line comments (not inside strings - gimli code has few)
    out=[]
    for l in text.split('\n'):
        s=l.strip()
        if s.startswith('///') or s.startswith('//!'):
            continue
        out.append(l)
    return '\n'.join(out)

def find_item(text, header_re, start=0):
    """Find item whose header matches header_re (regex, multiline); return (start,end) of full item through matching brace or ';'."""
    m=re.compile(header_re, re.M).search(text, start)
    if not m: raise KeyError(header_re)
    i=m.start()
    # include preceding attribute lines
    j=m.end()
    # find first '{' or ';' after header at depth 0 of parens/angles... simple: scan
    depth_par=0
    k=i
    while True:
        c=text[k]
        if c=='(' : depth_par+=1
        elif c==')': depth_par-=1
        elif c==';' and depth_par==0:
            return i,k+1
        elif c=='{' and depth_par==0:
            break
        k+=1
    depth=0
    while True:
        c=text[k]
        if c=='{': depth+=1
        elif c=='}':
            depth-=1
            if depth==0: return i,k+1
        elif c=='"':
            # skip string
            k+=1
            while text[k]!='"':
                if text[k]=='\\': k+=1
                k+=1
        elif c=="'" and re.match(r"'(\\.|[^\\'])'", text[k:k+4]):
            k+=len(re.match(r"'(\\.|[^\\'])'", text[k:k+4]).group(0))-1
        k+=1

def get(path, header_re, within=None):
    text=strip_comments_keep_layout(open(path).read())
    text=re.sub(r'//[^\n]*', '', text)
    start=0
    if within:
        a,b=find_item(text, within)
        sub=text[a:b]
        i,j=find_item(sub, header_re)
        return strip_comments_keep_layout(sub[i:j])
    i,j=find_item(text, header_re)
    return strip_comments_keep_layout(text[i:j])

def consts(path, ty, prefix):
    c=open(path).read()
    m=re.search(r'%s\((\w+)\) \{(.*?)\n\}\);' % ty, c, re.S)
    out=[]
    for name,val in re.findall(r'(%s\w+)\s*=\s*(0x[0-9a-fA-F_]+|\d+)' % prefix, m.group(2)):
        out.append(f'pub const {name}: {ty} = {ty}({val});')
    return m.group(1), out

if __name__=='__main__':
    print(get(sys.argv[1], sys.argv[2], sys.argv[3] if len(sys.argv)>3 else None))
