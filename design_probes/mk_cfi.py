from ex import *
R='/repo/src/'
parts=[]
ty,cs=consts(R+'constants.rs','DwCfa','DW_CFA_'); dwcfa=cs
ty2,cs2=consts(R+'constants.rs','DwEhPe','DW_EH_PE_'); dwehpe=cs2
ehpe_impl=get(R+'constants.rs', r'^impl DwEhPe \{')
ehpe_masks=get(R+'constants.rs', r'^const DW_EH_PE_FORMAT_MASK')+'\n'+get(R+'constants.rs', r'^const DW_EH_PE_APPLICATION_MASK')
cfi=R+'read/cfi.rs'
items=[
 get(cfi, r'^pub struct SectionBaseAddresses'),
 get(cfi, r'^pub struct UnwindExpression<'),
 get(cfi, r'^pub enum CallFrameInstruction<'),
 get(cfi, r'^const CFI_INSTRUCTION_HIGH_BITS_MASK'),
 get(cfi, r'^const CFI_INSTRUCTION_LOW_BITS_MASK'),
 get(cfi, r'^impl<T: ReaderOffset> CallFrameInstruction<T> \{'),
 get(cfi, r'^pub struct CallFrameInstructionIter<'),
 get(cfi, r'^impl<\'a, R: Reader> CallFrameInstructionIter<\'a, R> \{'),
 get(cfi, r'^fn parse_pointer_encoding<'),
 get(cfi, r'^pub enum Pointer \{'),
 get(cfi, r'^impl Pointer \{'),
 get(cfi, r'^struct PointerEncodingParameters<'),
 get(cfi, r'^fn parse_encoded_pointer<'),
 get(cfi, r'^fn parse_encoded_value<'),
]
rd=R+'read/reader.rs'
raddr=get(rd, r'^pub\(crate\) trait ReaderAddress')+'\n'+get(rd, r'^impl ReaderAddress for u64')
prelude=open('prelude.rs').read()
body='\n\n'.join(items)
# rewrites
import re
body=re.sub(r'#\[derive\([^\]]*\)\]', '#[derive(Clone, Copy, PartialEq, Eq, Debug)]', body)
from rw import rewrite_asserts
body=rewrite_asserts(body)
body=body.replace('#[doc(hidden)]','').replace('#[inline]','')
out=prelude.replace('/*CONSTS*/', '\n    '.join(['#[derive(Clone, Copy, PartialEq, Eq, Debug)]\n    pub struct DwCfa(pub u8);']+dwcfa+['#[derive(Clone, Copy, PartialEq, Eq, Debug)]\n    pub struct DwEhPe(pub u8);']+dwehpe+[ehpe_masks, ehpe_impl]))
out=out.replace('/*RADDR*/', raddr.replace('#[inline]',''))
out=out.replace('/*BODY*/', body)
open('cfi_v.rs','w').write(out)
