#!/usr/bin/env python3
"""regenerate MANIFEST.json from vx/registry.py (claimed properties) and properties.jsonl (everything else -> not_applicable)"""
import json, os, sys
ROOT = os.path.dirname(os.path.abspath(__file__))
sys.path.insert(0, os.path.join(ROOT, 'vx'))
import registry
props = [json.loads(l) for l in open(os.path.join(ROOT, 'properties.jsonl'))]
NA = json.load(open(os.path.join(ROOT, 'vx', 'claims.json')))
checks = []
na = []
for p in props:
    pid = p['id']
    c = NA['claims'].get(pid)
    if pid in registry.PROPS and c:
        checks.append({
            'property_id': pid,
            'quick_cmd': f'./check {pid} --tier quick',
            'thorough_cmd': f'./check {pid} --tier thorough',
            'evidence_file': f'/verif/evidence/{pid}.json',
            'replay_cmd_template': f'./check {pid} --replay {{path}}',
            'engine': c.get('engine', 'verus+kani'),
            'level_claimed': {'category': 'proof', 'text': c['text'], 'design_ref': c.get('design_ref', 'DESIGN.md section 6')},
            'level_note': c['note'],
            'technique': c['technique'],
        })
    else:
        na.append({'property_id': pid, 'reason': NA['not_applicable'].get(pid, 'no check registered yet (machinery under construction)')})
m = {
    'version': 1,
    'setup_cmd': 'cd /verif && ./setup.sh',
    'hooks': {'guard': 'none', 'enable': 'no source hooks: Verus verifies text extracted from /repo/src on every run; Kani path-depends on /repo',
              'baseline_off_cmd': 'cd /repo && cargo test --workspace --no-fail-fast --offline', 'source_commits': NA.get('source_commits', []), 'add_only': True},
    'engines': [
        {'name': 'verus', 'path': '/verif/vx', 'serves_properties': sorted(registry.PROPS), 'kind_free_text': 'deductive verifier (Verus 0.2026.09.13/Z3) on functions extracted verbatim from /repo/src with contracts spliced in'},
        {'name': 'kani', 'path': '/verif/kani', 'serves_properties': sorted(registry.PROPS), 'kind_free_text': 'Kani 0.68/CBMC harnesses on the real crate: complete loop-free / width-bounded kernels, bounded stand-ins labelled as such, concrete playback for counterexamples'},
    ],
    'checks': checks,
    'not_applicable': na,
    'notes': 'see DESIGN.md; known findings in known_findings.json',
}
json.dump(m, open(os.path.join(ROOT, 'MANIFEST.json'), 'w'), indent=1)
print('claimed', [c['property_id'] for c in checks])
